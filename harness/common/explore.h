// Choice-point explorer E1 (DESIGN.md 2.4): stateless DFS with prefix replay.  `choose(n)` is
// the only API the scripted environment uses.  Alternative 0 is the default environment
// answer; any other alternative costs one deviation.  exploreAll enumerates EVERY choice
// sequence (optionally: every sequence with <= maxDev deviations) exactly once.
#pragma once
#include <cstdio>
#include <cstdlib>
#include <functional>
#include <string>
#include <vector>

namespace vr {
void progress();
}

namespace ve {

struct Chooser {
  std::vector<int> prefix;
  std::vector<int> arity;   // n at each point of this execution
  std::vector<int> taken;   // choice at each point
  int choose(int n) {
    size_t pos = taken.size();
    int c = pos < prefix.size() ? prefix[pos] : 0;
    if (c >= n || n <= 0) {  // replay divergence = nondeterminism leak: hard error
      fprintf(stderr, "explore: replay divergence at point %zu: choice %d of %d\n", pos, c, n);
      abort();
    }
    arity.push_back(n);
    taken.push_back(c);
    return c;
  }
  std::string str() const {
    std::string s;
    for (size_t i = 0; i < taken.size(); i++) s += (i ? "," : "") + std::to_string(taken[i]);
    return s;
  }
};

// run(ch) performs one complete execution. Returns number of executions performed.
inline size_t exploreAll(const std::function<void(Chooser&)>& run, int maxDev = -1,
                         const std::vector<int>& startPrefix = {}) {
  std::vector<std::vector<int>> stack;
  stack.push_back(startPrefix);
  size_t execs = 0;
  while (!stack.empty()) {
    Chooser ch;
    ch.prefix = std::move(stack.back());
    stack.pop_back();
    size_t plen = ch.prefix.size();
    run(ch);
    execs++;
    vr::progress();
    if (ch.taken.size() < plen) {
      fprintf(stderr, "explore: execution shorter than its prefix (nondeterminism)\n");
      abort();
    }
    int dev = 0;
    for (size_t i = 0; i < plen; i++) dev += ch.taken[i] != 0;
    // alternatives at points beyond the prefix; push deeper points first so DFS order is stable
    for (size_t i = ch.taken.size(); i-- > plen;) {
      int devBefore = dev;
      for (size_t k = plen; k < i; k++) devBefore += ch.taken[k] != 0;  // always 0 beyond prefix
      if (maxDev >= 0 && devBefore + 1 > maxDev) continue;
      for (int alt = ch.arity[i] - 1; alt >= 1; alt--) {
        std::vector<int> p(ch.taken.begin(), ch.taken.begin() + i);
        p.push_back(alt);
        stack.push_back(std::move(p));
      }
    }
  }
  return execs;
}

}  // namespace ve
