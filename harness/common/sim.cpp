#include "common/sim.h"

#include <cxxabi.h>
#include <signal.h>

#include <sstream>

#include "common/boundary.h"
#include "common/world.h"
#include "oomd/Log.h"
#include "oomd/PluginRegistry.h"
#include "oomd/Stats.h"
#include "oomd/config/ConfigCompiler.h"
#include "oomd/config/JsonConfigParser.h"
#include "oomd/engine/Engine.h"
#include "oomd/include/CoreStats.h"

namespace sim {

std::vector<Call> calls;
int curTick = 0;
std::function<int(const std::string&, const std::string&)> decide;
std::vector<HookEvent> hookEvents;
Oomd::OomdContext* curCtx = nullptr;
Oomd::Config2::IR::Root* lastIr = nullptr;
Oomd::Engine::Engine* lastEngine = nullptr;
std::function<bool(const std::string&, long, int)> hookDecide;
static long g_instSerial = 0;
static long g_invSerial = 0;

void resetScript() {
  calls.clear();
  hookEvents.clear();
  curTick = 0;
  g_instSerial = 0;
  g_invSerial = 0;
  decide = nullptr;
  hookDecide = nullptr;
  curCtx = nullptr;
}

void processInit() {
  static bool done = false;
  if (done) return;
  done = true;
  vb::enterNamespace();
  world::reset();
  world::installHooks();
  setenv("INLINE_LOGGING", "1", 1);
  Oomd::Log::init(world::kmsgPath());
  Oomd::Stats::init(vb::root + "/_stats.sock");
  for (auto k : Oomd::CoreStats::kAllKeys) Oomd::setStat(k, 0);
}

static std::string demangled(const std::type_info& t) {
  int st = 0;
  char* dm = abi::__cxa_demangle(t.name(), nullptr, nullptr, &st);
  std::string r = dm ? dm : t.name();
  free(dm);
  return r;
}

std::unique_ptr<Oomd::Oomd> make(const std::string& json, std::string* err, int interval,
                                 const std::string& dropInDir, const IoCfg& io) {
  Oomd::Config2::JsonConfigParser parser;
  std::unique_ptr<Oomd::Config2::IR::Root> ir;
  try {
    ir = parser.parse(json);
  } catch (const std::exception& e) {
    if (err) *err = std::string("parse threw ") + demangled(typeid(e)) + ": " + e.what();
    return nullptr;
  }
  if (!ir) {
    if (err) *err = "parse returned null";
    return nullptr;
  }
  Oomd::PluginConstructionContext cctx(world::cgfs());
  auto engine = Oomd::Config2::compile(*ir, cctx);
  if (!engine) {
    if (err) *err = "compile returned null";
    return nullptr;
  }
  // the daemon takes ownership; the objects stay where they are, so these stay valid for the daemon's lifetime
  lastIr = ir.get();
  lastEngine = engine.get();
  return std::make_unique<Oomd::Oomd>(std::move(ir), std::move(engine), interval, world::cgfs(), dropInDir, io.devs,
                                      io.hdd, io.ssd);
}

TickOutcome runTicks(Oomd::Oomd& o, int ticks, const std::function<void(int)>& beforeTick,
                     const std::function<double(int)>& spacing) {
  TickOutcome out;
  int k = 0;
  vb::onTick = [&]() -> bool {
    out.ticks = k;  // ticks fully completed so far
    if (k >= ticks) return false;
    k++;
    curTick = k;
    vb::advanceClock(spacing ? spacing(k) : 1.0);
    if (beforeTick) beforeTick(k);
    return true;
  };
  sigset_t mask;
  sigemptyset(&mask);
  try {
    o.run(&mask);
  } catch (const vb::Horizon&) {
  } catch (const std::exception& e) {
    out.escaped = true;
    out.excType = demangled(typeid(e));
    out.excWhat = e.what();
    out.excFrames = vb::lastThrowFrames();
  } catch (...) {
    out.escaped = true;
    out.excType = "unknown";
    out.excFrames = vb::lastThrowFrames();
  }
  vb::onTick = nullptr;
  // a descriptor that is not open was used or closed during the run: reported through the same channel as an escaping
  // exception (every driver turns that into a violation "uncaught:use-of-closed-fd")
  if (!out.escaped && !vb::badFdUses.empty()) {
    out.escaped = true;
    out.excType = "use-of-closed-fd";
    out.excWhat = vb::badFdUses.front() + " (" + std::to_string(vb::badFdUses.size()) + " such call(s) in this run)";
  }
  return out;
}

int statValue(const std::string& key) {
  auto m = Oomd::getStats();
  auto it = m.find(key);
  return it == m.end() ? 0 : it->second;
}
void resetStats() { Oomd::resetStats(); }

// ---------------------------------------------------------------------------------------
namespace {

std::string relOrDash(const std::optional<Oomd::CgroupPath>& p) { return p ? "/" + p->relativePath() : "-"; }

class Scripted : public Oomd::Engine::BasePlugin {
 public:
  Scripted() { inst_ = "i" + std::to_string(++g_instSerial); }
  int init(const Oomd::Engine::PluginArgs& args, const Oomd::PluginConstructionContext&) override {
    auto it = args.find("id");
    if (it == args.end()) return 1;
    id_ = it->second;
    if (auto c = args.find("cgroup"); c != args.end()) cgroupArg_ = c->second;
    if (auto f = args.find("fail_init"); f != args.end()) return 1;
    if (auto b = args.find("busy"); b != args.end()) busy_ = atof(b->second.c_str());
    if (auto b = args.find("post_action_delay"); b != args.end()) ownDelay_ = atoi(b->second.c_str());
    Call c;
    c.id = id_;
    c.method = "init";
    c.instance = inst_;
    c.cgroupArg = cgroupArg_;
    std::string a;
    std::vector<std::string> keys;
    for (auto& kv : args) keys.push_back(kv.first);
    std::sort(keys.begin(), keys.end());
    for (auto& k : keys) a += k + "=" + args.at(k) + ";";
    c.uuid = a;  // init: the full argument list
    calls.push_back(c);
    return 0;
  }
  void prerun(Oomd::OomdContext& ctx) override {
    curCtx = &ctx;
    record("prerun", ctx, 0);
  }
  Oomd::Engine::PluginRet run(Oomd::OomdContext& ctx) override {
    curCtx = &ctx;
    int r = decide ? decide(id_, inst_) : 0;
    record("run", ctx, r);
    if (busy_ > 0) {  // a slow plugin: virtual time passes while it runs
      vb::advanceClock(busy_);
      calls.back().tEnd = vb::nowSec();
    }
    // plugin-level post_action_delay, requested the way BaseKillPlugin does when it stops the chain
    if (r == 1 && ownDelay_ >= 0)
      if (auto rs = ctx.getInvokingRuleset()) (*rs)->pause_actions(std::chrono::seconds(ownDelay_));
    return r == 0 ? Oomd::Engine::PluginRet::CONTINUE
                  : r == 1 ? Oomd::Engine::PluginRet::STOP : Oomd::Engine::PluginRet::ASYNC_PAUSED;
  }
  static Scripted* create() { return new Scripted(); }

 private:
  void record(const char* m, Oomd::OomdContext& ctx, int ret) {
    Call c;
    c.id = id_;
    c.method = m;
    c.tick = curTick;
    c.t = vb::nowSec();
    c.tEnd = c.t;
    c.ret = ret;
    const auto& ac = ctx.getActionContext();
    c.ruleset = ac.ruleset_name;
    c.group = ac.detectorgroup;
    c.uuid = ac.action_group_run_uuid;
    if (ac.prekill_hook_timeout_ts) {
      c.hasDeadline = true;
      c.deadline = std::chrono::duration<double>(ac.prekill_hook_timeout_ts->time_since_epoch()).count() -
                   vb::kEpochNs / 1e9;
    }
    c.target = relOrDash(ac.target_cgroup);
    c.rulesetCgroup = relOrDash(ctx.getRulesetCgroup());
    c.instance = inst_;
    c.cgroupArg = cgroupArg_;
    c.hasInvokingRuleset = ctx.getInvokingRuleset().has_value();
    calls.push_back(c);
  }
  std::string id_, inst_, cgroupArg_;
  double busy_ = 0;
  int ownDelay_ = -1;
};

// `verif_wrap`: transparent observer around a REAL plugin (args: wrap=<registered name>, id=<id>, rest
// forwarded). It records the wrapped plugin's prerun/run and the PluginRet it returned.
class Wrap : public Oomd::Engine::BasePlugin {
 public:
  Wrap() { inst_ = "i" + std::to_string(++g_instSerial); }
  int init(const Oomd::Engine::PluginArgs& args, const Oomd::PluginConstructionContext& context) override {
    auto copy = args;
    auto w = copy.find("wrap");
    if (w == copy.end()) return 1;
    std::string name = w->second;
    copy.erase(w);
    if (auto it = copy.find("id"); it != copy.end()) {
      id_ = it->second;
      copy.erase(it);
    }
    if (auto c = copy.find("cgroup"); c != copy.end()) cgroupArg_ = c->second;
    real_.reset(Oomd::getPluginRegistry().create(name));
    if (!real_) return 1;
    real_->setName(name);
    return real_->initPlugin(copy, context);
  }
  void prerun(Oomd::OomdContext& ctx) override {
    Call c = snap("prerun", ctx);
    real_->prerun(ctx);
    c.tEnd = vb::nowSec();
    calls.push_back(c);
  }
  Oomd::Engine::PluginRet run(Oomd::OomdContext& ctx) override {
    Call c = snap("run", ctx);
    size_t at = calls.size();
    calls.push_back(c);
    auto r = real_->run(ctx);
    calls[at].tEnd = vb::nowSec();
    calls[at].ret = r == Oomd::Engine::PluginRet::CONTINUE ? 0 : r == Oomd::Engine::PluginRet::STOP ? 1 : 2;
    return r;
  }
  static Wrap* create() { return new Wrap(); }

 private:
  Call snap(const char* m, Oomd::OomdContext& ctx) {
    Call c;
    c.id = id_;
    c.method = m;
    c.tick = curTick;
    c.t = vb::nowSec();
    const auto& ac = ctx.getActionContext();
    c.ruleset = ac.ruleset_name;
    c.group = ac.detectorgroup;
    c.uuid = ac.action_group_run_uuid;
    if (ac.prekill_hook_timeout_ts) {
      c.hasDeadline = true;
      c.deadline = std::chrono::duration<double>(ac.prekill_hook_timeout_ts->time_since_epoch()).count() -
                   vb::kEpochNs / 1e9;
    }
    c.target = relOrDash(ac.target_cgroup);
    c.rulesetCgroup = relOrDash(ctx.getRulesetCgroup());
    c.instance = inst_;
    c.cgroupArg = cgroupArg_;
    c.hasInvokingRuleset = ctx.getInvokingRuleset().has_value();
    return c;
  }
  std::string id_, inst_, cgroupArg_;
  std::unique_ptr<Oomd::Engine::BasePlugin> real_;
};

class ScriptedInvocation : public Oomd::Engine::PrekillHookInvocation {
 public:
  ScriptedInvocation(std::string hook, std::string cg) : hook_(std::move(hook)), cg_(std::move(cg)) {
    inv_ = ++g_invSerial;
  }
  bool didFinish() override {
    bool f = hookDecide ? hookDecide(hook_, inv_, polls_) : true;
    polls_++;
    hookEvents.push_back({"poll", hook_, cg_, curTick, vb::nowSec(), inv_, f, vb::effects.size()});
    return f;
  }
  ~ScriptedInvocation() override {
    hookEvents.push_back({"destroy", hook_, cg_, curTick, vb::nowSec(), inv_, false, vb::effects.size()});
  }
  long inv_;

 private:
  std::string hook_, cg_;
  int polls_ = 0;
};

class ScriptedHook : public Oomd::Engine::PrekillHook {
 public:
  int init(const Oomd::Engine::PluginArgs& args, const Oomd::PluginConstructionContext& context) override {
    auto copy = args;
    if (auto it = copy.find("id"); it != copy.end()) {
      id_ = it->second;
      copy.erase(it);
    }
    return PrekillHook::init(copy, context);
  }
  std::unique_ptr<Oomd::Engine::PrekillHookInvocation> fire(const Oomd::CgroupContext& cg,
                                                           const Oomd::ActionContext&) override {
    auto inv = std::make_unique<ScriptedInvocation>(id_, cg.cgroup().relativePath());
    hookEvents.push_back({"fire", id_, cg.cgroup().relativePath(), curTick, vb::nowSec(), inv->inv_, false,
                          vb::effects.size()});
    return inv;
  }
  static ScriptedHook* create() { return new ScriptedHook(); }

 private:
  std::string id_;
};

}  // namespace

using namespace Oomd;
REGISTER_PLUGIN(verif_scripted, Scripted::create);
REGISTER_PLUGIN(verif_wrap, Wrap::create);
REGISTER_PREKILL_HOOK(verif_hook, ScriptedHook::create);

}  // namespace sim
