// Explicit-state model checking of the engine state machine directly on the implementation
// (DESIGN.md 2.4, A.1).  A state is the tick history that reaches it (objects are not
// copyable -> rebuilt by replay on a fresh Oomd); its key is the canonical string of the
// REFERENCE MODEL's state, and at every state the implementation's private state must map
// to the same key.  Every transition calls the real Oomd::run for one more tick.
#pragma once
#include <cmath>
#include <deque>
#include <map>
#include <set>
#include <sstream>
#include <string>
#include <vector>

#include "common/boundary.h"
#include "common/explore.h"
#include "common/runner.h"
#include "common/sim.h"
#include "oomd/engine/Engine.h"
#include "oomd/engine/Ruleset.h"

namespace emc {

struct ActionCfg {
  std::string id;
  bool external = false;   // return value observed, not chosen (wrapped real plugin)
  int ownDelay = -1;       // plugin-level post_action_delay (-1 = none)
  std::string json;        // full plugin JSON if not a plain scripted plugin
  double busy = 0;         // virtual seconds the (scripted) action takes to run
};
struct RulesetCfg {
  std::string name;
  std::vector<std::string> groupNames;
  std::vector<std::vector<std::string>> groups;  // detector ids
  std::vector<ActionCfg> actions;
  int delay = -1;        // -1: not specified (default 15)
  int hookTimeout = -1;  // -1: default 5
  std::string silence;   // "", "engine", "plugins", "engine,plugins"
  int effDelay() const { return delay < 0 ? 15 : delay; }
  int effHook() const { return hookTimeout < 0 ? 5 : hookTimeout; }
};
struct Cfg {
  std::vector<RulesetCfg> rulesets;
  std::string extraTop;  // e.g. "prekill_hooks": [...]
  std::string json() const {
    std::ostringstream o;
    o << "{\"rulesets\":[";
    for (size_t r = 0; r < rulesets.size(); r++) {
      const auto& rs = rulesets[r];
      o << (r ? "," : "") << "{\"name\":\"" << rs.name << "\"";
      if (rs.delay >= 0) o << ",\"post_action_delay\":\"" << rs.delay << "\"";
      if (rs.hookTimeout >= 0) o << ",\"prekill_hook_timeout\":\"" << rs.hookTimeout << "\"";
      if (!rs.silence.empty()) o << ",\"silence-logs\":\"" << rs.silence << "\"";
      o << ",\"detectors\":[";
      for (size_t g = 0; g < rs.groups.size(); g++) {
        o << (g ? "," : "") << "[\"" << rs.groupNames[g] << "\"";
        for (auto& d : rs.groups[g]) o << ",{\"name\":\"verif_scripted\",\"args\":{\"id\":\"" << d << "\"}}";
        o << "]";
      }
      o << "],\"actions\":[";
      for (size_t a = 0; a < rs.actions.size(); a++) {
        o << (a ? "," : "");
        if (!rs.actions[a].json.empty())
          o << rs.actions[a].json;
        else
          o << "{\"name\":\"verif_scripted\",\"args\":{\"id\":\"" << rs.actions[a].id << "\""
            << (rs.actions[a].busy > 0 ? ",\"busy\":\"" + std::to_string(rs.actions[a].busy) + "\"" : std::string()) << "}}";
      }
      o << "]}";
    }
    o << "]" << (extraTop.empty() ? "" : "," + extraTop) << "}";
    return o.str();
  }
  std::string brief() const {
    std::ostringstream o;
    for (auto& rs : rulesets) {
      o << rs.name << "{G=";
      for (auto& g : rs.groups) o << g.size();
      o << ",A=" << rs.actions.size();
      for (auto& a : rs.actions)
        if (a.busy > 0) o << "(" << a.id << " takes " << a.busy << "s)";
      o << ",d=" << rs.delay << ",h=" << rs.hookTimeout << ",s=" << rs.silence << "}";
    }
    return o.str();
  }
};

// ---- reference model (A.1) -------------------------------------------------------------
struct Ctx {
  std::string ruleset, group, uuid;
  double deadline = 0;
};
struct RState {
  double pausedUntil = -1e18;
  int susp = -1;
  Ctx suspCtx;
  std::string suspInst;  // plugin instance that returned ASYNC_PAUSED
};

struct Model {
  const Cfg& cfg;
  std::vector<RState> st;
  std::set<std::string> uuids;
  bool keyDeadline = false;  // include the suspended chain's remaining prekill window in the key
  explicit Model(const Cfg& c) : cfg(c), st(c.rulesets.size()) {}

  std::string key(double now, bool withDeadline = true) const {
    std::ostringstream o;
    for (auto& s : st) {
      double rem = s.pausedUntil - now;
      o << "[" << (rem > 0 ? rem : 0) << "," << s.susp;
      if (keyDeadline && withDeadline && s.susp >= 0) {
        double left = s.suspCtx.deadline - now;
        o << ",w" << (left >= 0 ? left : -1);
      }
      o << "]";
    }
    return o.str();
  }

  // Consumes the implementation's call log of ONE tick (calls[b..e)) and checks it against the
  // model. Returns "" or "<rule>: explanation".
  std::string tick(double now, const std::vector<sim::Call>& calls, size_t b, size_t e) {
    size_t k = b;
    // `now` becomes a running clock: plugins may take (virtual) time, and every later clock read of the tick sees it
    auto passed = [&](size_t upto) {
      for (size_t i = b; i < upto && i < e; i++) now = std::max(now, calls[i].tEnd);
    };
    auto expect = [&](const std::string& id, const char* method) -> std::string {
      if (k >= e) return std::string("missing call ") + id + "." + method;
      if (calls[k].id != id || calls[k].method != method)
        return std::string("expected ") + id + "." + method + " got " + calls[k].id + "." + calls[k].method;
      return "";
    };
    std::string err;
    // prerun phase
    for (auto& rs : cfg.rulesets) {
      for (auto& g : rs.groups)
        for (auto& d : g) {
          if (!(err = expect(d, "prerun")).empty()) return "prerun-order: " + err;
          k++;
        }
      for (auto& a : rs.actions) {
        if (!(err = expect(a.id, "prerun")).empty()) return "prerun-order: " + err;
        k++;
      }
    }
    // run phase
    for (size_t r = 0; r < cfg.rulesets.size(); r++) {
      auto& rs = cfg.rulesets[r];
      auto& s = st[r];
      int fired = -1;
      for (size_t g = 0; g < rs.groups.size(); g++) {
        bool ok = true;
        for (auto& d : rs.groups[g]) {
          if (!(err = expect(d, "run")).empty()) return "detector-once: " + err;
          if (calls[k].ret == 1) ok = false;  // STOP; ASYNC counts as CONTINUE
          k++;
        }
        if (ok && fired < 0) fired = (int)g;
      }
      passed(k);
      if (now < s.pausedUntil) continue;  // paused: nothing else for this ruleset
      int start = -1;
      Ctx ctx;
      bool resumed = false;
      std::string wantInst;
      if (s.susp >= 0) {
        start = s.susp;
        ctx = s.suspCtx;
        wantInst = s.suspInst;
        s.susp = -1;
        resumed = true;
      } else if (fired >= 0) {
        start = 0;
        ctx.ruleset = rs.name;
        ctx.group = rs.groupNames[fired];
        ctx.deadline = now + rs.effHook();
      }
      if (start < 0) continue;
      for (size_t a = start; a < rs.actions.size(); a++) {
        if (!(err = expect(rs.actions[a].id, "run")).empty())
          return std::string(resumed ? "resume: " : "chain-start: ") + err;
        const auto& c = calls[k];
        if (resumed && (int)a == start && c.instance != wantInst)
          return "resume: chain resumed on plugin instance " + c.instance + " but " + wantInst + " was suspended";
        if (c.ruleset != ctx.ruleset || c.group != ctx.group)
          return "ctx-names: action " + c.id + " saw ruleset='" + c.ruleset + "' group='" + c.group + "' expected '" +
                 ctx.ruleset + "'/'" + ctx.group + "'";
        if (!c.hasDeadline || std::fabs(c.deadline - ctx.deadline) > 1e-6)
          return "ctx-deadline: action " + c.id + " saw deadline " + std::to_string(c.deadline) + " expected " +
                 std::to_string(ctx.deadline);
        if (ctx.uuid.empty()) {
          if (c.uuid.empty()) return "uuid: empty run uuid";
          if (uuids.count(c.uuid)) return "uuid: chain started with a uuid seen before";
          ctx.uuid = c.uuid;
          uuids.insert(c.uuid);
        } else if (c.uuid != ctx.uuid) {
          return std::string(resumed ? "resume" : "uuid") + ": action " + c.id + " saw uuid " + c.uuid + " expected " +
                 ctx.uuid;
        }
        int ret = c.ret;
        double tret = c.tEnd;  // virtual time when the action returned (== now unless it slept)
        k++;
        if (ret == 0) continue;
        if (ret == 1) {
          int d = rs.actions[a].ownDelay >= 0 ? rs.actions[a].ownDelay : rs.effDelay();
          s.pausedUntil = tret + d;
          break;
        }
        s.susp = (int)a;
        s.suspCtx = ctx;
        s.suspInst = c.instance;
        break;
      }
    }
    if (k != e) return "extra-call: unexpected " + calls[k].id + "." + calls[k].method;
    return "";
  }
};

struct TickIn {
  double dt;
  std::vector<int> choices;
};
using Hist = std::vector<TickIn>;

inline std::string histStr(const Hist& h) {
  std::string s;
  for (auto& t : h) {
    {
      std::ostringstream d;
      d << t.dt;
      s += "(+" + d.str() + "s:";
    }
    for (auto c : t.choices) s += "CSA"[c];
    s += ")";
  }
  return s;
}

// implementation's private engine state rendered like Model::key.  Private members are read through
// `requires`-guarded templates so that a refactoring of those members degrades the conformance check (unknown parts are
// skipped) instead of breaking the harness build; the behavioural oracle (call log vs model) never depends on them.
template <class RS>
int suspIndexOf(RS& rs) {
  if constexpr (requires { rs.active_action_chain_state_->active_plugin.get(); rs.action_group_.size(); }) {
    if (!rs.active_action_chain_state_) return -1;
    for (size_t a = 0; a < rs.action_group_.size(); a++)
      if (rs.action_group_[a].get() == &rs.active_action_chain_state_->active_plugin.get()) return (int)a;
    return -2;
  } else if constexpr (requires { rs.active_action_chain_state_.has_value(); }) {
    return rs.active_action_chain_state_.has_value() ? -2 : -1;  // suspended, position not readable
  } else {
    return -3;  // not readable at all
  }
}
template <class RS>
double pauseRemOf(RS& rs, std::chrono::steady_clock::time_point now, bool* known) {
  if constexpr (requires { rs.pause_actions_until_ - now; }) {
    *known = true;
    return std::chrono::duration<double>(rs.pause_actions_until_ - now).count();
  } else {
    *known = false;
    return 0;
  }
}
template <class OomdT>
inline std::string implKeyT(OomdT& o, const Cfg& cfg, const std::string& modelKey) {
  if constexpr (!requires { (*o.engine_->rulesets_.begin()).ruleset; }) {
    (void)cfg;
    return modelKey;  // engine internals not readable: state conformance degrades to the behavioural oracle
  } else {
  using namespace std::chrono;
  std::ostringstream out;
  auto now = steady_clock::now();
  // model key looks like "[rem,susp][rem,susp]..." ; unknown parts are copied from it
  std::vector<std::pair<std::string, std::string>> mparts;
  {
    size_t pos = 0;
    while ((pos = modelKey.find('[', pos)) != std::string::npos) {
      size_t comma = modelKey.find(',', pos), end = modelKey.find(']', pos);
      mparts.push_back({modelKey.substr(pos + 1, comma - pos - 1), modelKey.substr(comma + 1, end - comma - 1)});
      pos = end;
    }
  }
  size_t i = 0;
  for (auto& b : o.engine_->rulesets_) {
    auto& rs = *b.ruleset;
    bool known = false;
    double rem = pauseRemOf(rs, now, &known);
    int susp = suspIndexOf(rs);
    std::string remS, suspS;
    {
      std::ostringstream t;
      t << (rem > 0 ? rem : 0);
      remS = known ? t.str() : (i < mparts.size() ? mparts[i].first : "?");
    }
    if (susp >= -1)
      suspS = std::to_string(susp);
    else if (susp == -2 && i < mparts.size() && mparts[i].second != "-1")
      suspS = mparts[i].second;  // suspended, position unknown: accept the model's position
    else if (susp == -3 && i < mparts.size())
      suspS = mparts[i].second;
    else
      suspS = "suspended";
    out << "[" << remS << "," << suspS << "]";
    i++;
  }
  (void)cfg;
  return out.str();
  }
}
inline std::string implKey(Oomd::Oomd& o, const Cfg& cfg, const std::string& modelKey) { return implKeyT(o, cfg, modelKey); }

struct Options {
  std::vector<double> dts = {1, 3};
  int maxDepth = 64;           // safety horizon; fixpoint normally reached much earlier
  size_t maxTransitions = 400000;
  // extra per-execution hook: called after the run with the call log to apply property-specific rules
  std::function<std::string(const Cfg&, const Hist&, const std::vector<sim::Call>&)> extraRule;
  std::function<int(const std::string& id)> arity;  // choices for plugin id (default 3)
  std::function<void()> setupWorld;           // once per configuration
  std::function<void(int tick)> beforeTick;   // scripted environment step
  bool keyDeadline = false;
  int hookArity = 2;                          // verif_hook poll: 0 = finished, 1 = still running
};

// Explore one configuration to fixpoint. Reports into r.
inline void exploreConfig(const std::string& prop, const std::string& klass, const Cfg& cfg, const Options& opt,
                          vr::Result& r, bool verbose) {
  std::map<std::string, Hist> seen;
  std::deque<std::string> frontier;
  std::string json = cfg.json();
  if (opt.setupWorld) opt.setupWorld();
  {
    Model m(cfg);
    m.keyDeadline = opt.keyDeadline;
    std::string k0 = m.key(0);
    seen[k0] = {};
    frontier.push_back(k0);
  }
  size_t transitions = 0;
  int maxDepth = 0;
  bool capped = false;
  std::set<std::string> outcomes;
  while (!frontier.empty() && !capped) {
    Hist H = seen[frontier.front()];
    frontier.pop_front();
    if ((int)H.size() >= opt.maxDepth) {
      capped = true;
      break;
    }
    for (double dt : opt.dts) {
      ve::exploreAll([&](ve::Chooser& ch) {
        transitions++;
        sim::resetScript();
        vb::resetLog();
        vb::clockNs = vb::kEpochNs;
        std::string err;
        auto o = sim::make(json, &err, 5);
        if (!o) {
          r.violate(prop + "|" + klass + "|harness:config-rejected", err + "\n" + json);
          return;
        }
        // one choice stream per tick: replayed from H for old ticks, drawn from the explorer for the new one
        size_t tickNo = 0, pos = 0;
        std::vector<int> drawn;
        auto draw = [&](int arity) -> int {
          size_t t = (size_t)sim::curTick - 1;
          if (t != tickNo) {
            tickNo = t;
            pos = 0;
          }
          if (t < H.size()) {
            if (pos >= H[t].choices.size()) {
              fprintf(stderr, "enginemc: replay consumed more choices than recorded\n");
              abort();
            }
            return H[t].choices[pos++];
          }
          int c = ch.choose(arity);
          drawn.push_back(c);
          return c;
        };
        sim::decide = [&](const std::string& id, const std::string&) -> int { return draw(opt.arity ? opt.arity(id) : 3); };
        sim::hookDecide = [&](const std::string&, long, int) -> bool { return draw(opt.hookArity) == 0; };
        auto out = sim::runTicks(*o, (int)H.size() + 1, opt.beforeTick,
                                 [&](int k) { return (double)((size_t)k <= H.size() ? H[k - 1].dt : dt); });
        Hist H2 = H;
        H2.push_back({dt, drawn});
        std::string where = "config " + cfg.brief() + " history " + histStr(H2);
        if (out.escaped) {
          r.violate(prop + "|" + klass + "|uncaught:" + out.excType, where + "\n" + out.excWhat + "\n" + out.excFrames);
          return;
        }
        // feed the whole log to a fresh model, tick by tick
        Model m(cfg);
        m.keyDeadline = opt.keyDeadline;
        double now = 0;
        std::string verdict;
        for (int t = 1; t <= (int)H2.size() && verdict.empty(); t++) {
          now += H2[t - 1].dt;  // the tick starts dt after the previous one ENDED (slow plugins make a tick take time)
          std::vector<sim::Call> tc;
          for (auto& c : sim::calls)
            if (c.tick == t && c.method != "init") tc.push_back(c);
          if (!tc.empty() && std::fabs(tc.front().t - now) > 1e-6) {
            verdict = "harness: tick " + std::to_string(t) + " started at " + std::to_string(tc.front().t) + " but the model clock says " + std::to_string(now);
            break;
          }
          verdict = m.tick(now, tc, 0, tc.size());
          if (!verdict.empty()) verdict = "tick " + std::to_string(t) + ": " + verdict;
          for (auto& c : tc) now = std::max(now, c.tEnd);
        }
        if (verdict.empty() && opt.extraRule) verdict = opt.extraRule(cfg, H2, sim::calls);
        if (!verdict.empty()) {
          std::string rule = verdict.substr(verdict.find(": ") + 2);
          rule = rule.substr(0, rule.find(':'));
          std::ostringstream log;
          for (auto& c : sim::calls)
            if (c.method != "init")
              log << "  tick" << c.tick << " t=" << c.t << " " << c.id << "." << c.method << " ret=" << "CSA"[c.ret]
                  << " inst=" << c.instance << " rs=" << c.ruleset << " g=" << c.group << " uuid=" << c.uuid.substr(0, 6)
                  << "\n";
          r.violate(prop + "|" + klass + "|model-mismatch:" + rule, where + "\n" + verdict + "\ncall log:\n" + log.str());
          return;
        }
        // state conformance is about pause / suspension; the deadline part is model-only
        std::string mk = m.key(now), mk0 = m.key(now, false), ik = implKey(*o, cfg, mk0);
        if (mk0 != ik) {
          r.violate(prop + "|" + klass + "|state-conformance",
                    where + "\nmodel state " + mk0 + " implementation state " + ik);
          return;
        }
        outcomes.insert(mk + "|" + std::to_string(sim::calls.size()));
        if (!seen.count(mk)) {
          seen[mk] = H2;
          frontier.push_back(mk);
          maxDepth = std::max(maxDepth, (int)H2.size());
        }
        if (verbose) fprintf(stdout, "  %s -> %s\n", histStr(H2).c_str(), mk.c_str());
      });
      if (transitions > opt.maxTransitions) {
        capped = true;
        break;
      }
    }
  }
  r.evals = transitions;
  r.counters["states"] += (long long)seen.size();
  r.counters["transitions"] += (long long)transitions;
  r.counters["max_depth"] = std::max<long long>(r.counters["max_depth"], maxDepth);
  r.counters["configs_capped"] += capped ? 1 : 0;
  r.counters["configs_fixpoint"] += capped ? 0 : 1;
  for (auto& o : outcomes) r.nontrivial(cfg.brief() + o);
}

}  // namespace emc
