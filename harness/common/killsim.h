// Shared scenario runner for the kill-plugin properties (C01, C03, C04, C07, C17): builds a
// simulated cgroup tree, runs one real kill plugin (behind the verif_wrap observer) inside the
// real Oomd::run for a few ticks, and returns the effect log parsed into victim attempts.
#pragma once
#include <functional>
#include <map>
#include <sstream>
#include <string>
#include <vector>

#include "common/boundary.h"
#include "common/refglob.h"
#include "common/sim.h"
#include "common/world.h"
#include "oomd/Oomd.h"
#include "oomd/include/CoreStats.h"

namespace ks {

struct Cg {
  std::string rel;
  int nprocs = 0;
  bool zeroLine = false;   // literal "0" line in cgroup.procs (task of a foreign pid namespace)
  int pref = 0;            // 0 none, 1 prefer, 2 avoid, 3 both
  int lingerAll = 0;       // every process survives this many SIGKILLs (kill(2) succeeds, the process stays: e.g. stuck in D state)
  int pidsMode = 0;        // world::setPidsMode
  bool userXattr = false;  // user.oomd_* instead of trusted.oomd_*
  int preferNs = -1, avoidNs = -1;  // per-mark namespace override: 0 trusted, 1 user, -1 follow userXattr
  int oomGroup = 0;
  long long mem = 0, swap = 0, pgscan = 0, memLow = 0;
  double p10 = 0, p60 = 0;
  int outcome = 0;         // 0 all die, 1 all ESRCH, 2 first pid EPERM (others die), 3 first pid lingers for one more kill
  std::map<std::string, std::string> xattrs;  // pre-existing xattrs
  bool populatedOverride = false;             // write populated 0 although processes are listed (stale events file)
};

struct Step {
  int tick;          // applied before this tick (1-based; tick 1 = before the first tick)
  int kind;          // 0 remove, 1 create (populated, 1 proc), 2 remove+create (new identity, new procs), 3 add a proc
  std::string rel;
};

struct Scenario {
  std::vector<Cg> cgs;
  std::string plugin = "kill_by_memory_size_or_growth";
  std::map<std::string, std::string> args;  // cgroup, recursive, kernelkill, reap_memory, always_continue, dry ...
  int ticks = 1;
  std::vector<Step> steps;
  std::string hooksJson;   // content of "prekill_hooks": [...]
  int hookTimeout = -1;
  std::string silence;
  double tickSpacing = 1.0;
  int rulesetDelay = 0;    // ruleset-level post_action_delay
  long long memTotalKb = 64LL << 20, swapTotalKb = 8LL << 20, swapUsedKb = 0;  // /proc/meminfo, /proc/swaps
  bool autoPgscan = true;  // pgscan of every cgroup grows by its base value each tick
  // optional scripting (not part of describe())
  std::function<void(Oomd::Oomd&)> afterMake;                       // e.g. install a drop-in adaptor
  std::function<void(int pid, int err)> afterKill;                // environment reaction to each kill(2) call
  std::function<void(int tick)> onTick;                            // scripted environment step before each tick
  std::function<bool(const std::string&, long, int)> hookDecide;   // verif_hook poll answers
  double killLatency = 0;  // virtual seconds every kill(2) call takes
  std::string describe() const {
    std::ostringstream o;
    o << plugin << "(";
    for (auto& kv : args) o << kv.first << "=" << kv.second << " ";
    o << ") ticks=" << ticks << " tree:";
    for (auto& c : cgs) {
      o << " " << c.rel << "[n=" << c.nprocs << (c.zeroLine ? ",0line" : "") << ",pref=" << c.pref << (c.userXattr ? "u" : "")
        << ",og=" << c.oomGroup << ",mem=" << c.mem << ",sw=" << c.swap << ",p=" << c.p10 << ",out=" << c.outcome;
      for (auto& x : c.xattrs) o << "," << x.first << "=" << x.second;
      o << "]";
    }
    for (auto& s : steps) o << " step@" << s.tick << ":" << s.kind << ":" << s.rel;
    if (!hooksJson.empty()) o << " hooks=" << hooksJson << " timeout=" << hookTimeout;
    if (!silence.empty()) o << " silence=" << silence;
    return o.str();
  }
};

struct Attempt {
  int tick = 0;
  std::string victim;       // relative path
  std::string uuid;
  std::vector<int> okPids;  // kill() returned 0
  std::vector<int> failedPids;
  bool killFileWritten = false;
  bool freezeWritten = false;
  size_t effBegin = 0, effEnd = 0;
  bool dry = false;
  int signalled() const { return (int)okPids.size(); }
};

struct Outcome {
  sim::TickOutcome tick;
  std::vector<vb::Effect> effects;
  std::vector<size_t> tickStart;  // effects index at start of each tick (1-based; [0] unused)
  std::vector<sim::Call> calls;
  std::vector<sim::HookEvent> hooks;
  std::vector<Attempt> attempts;
  std::vector<int> killsStatAtTickEnd;  // oomd.kills after each tick (1-based)
  std::map<int, std::string> pidHome;   // every pid ever listed -> its cgroup
  std::string rejected;                 // config rejected
  int tickOfEffect(size_t idx) const {
    int t = 0;
    for (size_t k = 1; k < tickStart.size(); k++)
      if (idx >= tickStart[k]) t = (int)k;
    return t;
  }
};

inline std::string relOfDir(const std::string& abs) {
  std::string pre = world::cgfs();
  if (abs.compare(0, pre.size(), pre) != 0) return "?" + abs;
  std::string r = abs.substr(pre.size());
  while (!r.empty() && r[0] == '/') r.erase(0, 1);
  return r;
}
inline std::string dirPart(const std::string& p) { return p.substr(0, p.rfind('/')); }
inline std::string basePart(const std::string& p) { return p.substr(p.rfind('/') + 1); }

inline std::string configJson(const Scenario& s) {
  std::ostringstream o;
  o << "{\"rulesets\":[{\"name\":\"RK\",\"post_action_delay\":\"" << s.rulesetDelay << "\"";
  if (s.hookTimeout >= 0) o << ",\"prekill_hook_timeout\":\"" << s.hookTimeout << "\"";
  if (!s.silence.empty()) o << ",\"silence-logs\":\"" << s.silence << "\"";
  o << ",\"detectors\":[[\"gk\",{\"name\":\"verif_scripted\",\"args\":{\"id\":\"det\"}}]],\"actions\":[{\"name\":\"verif_wrap\","
       "\"args\":{\"wrap\":\""
    << s.plugin << "\",\"id\":\"K\"";
  for (auto& kv : s.args) o << ",\"" << kv.first << "\":\"" << kv.second << "\"";
  o << "}},{\"name\":\"verif_scripted\",\"args\":{\"id\":\"after\"}}]}]";
  if (!s.hooksJson.empty()) o << ",\"prekill_hooks\":[" << s.hooksJson << "]";
  o << "}";
  return o.str();
}

struct Builder {
  int nextPid = 1001;
  std::map<int, std::string>* home;
  void populate(const Cg& c, int n) {
    for (int i = 0; i < n; i++) {
      int pid = nextPid++;
      int outcome = world::K_OK, linger = 0;
      if (c.outcome == 1) outcome = world::K_ESRCH;
      if (c.outcome == 2 && i == 0) outcome = world::K_EPERM;
      if (c.outcome == 3 && i == 0) linger = 1;
      if (c.lingerAll > 0) linger = c.lingerAll;
      world::addProc(pid, c.rel, outcome, linger);
      (*home)[pid] = c.rel;
    }
  }
  void create(const Cg& c) {
    world::mkcg(c.rel);
    world::setPidsMode(c.rel, c.pidsMode);
    world::setMem(c.rel, c.mem);
    world::setFile(c.rel, "memory.swap.current", std::to_string(c.swap) + "\n");
    world::setFile(c.rel, "memory.low", std::to_string(c.memLow) + "\n");
    world::setMemStatKey(c.rel, "pgscan", c.pgscan);
    world::setMemStatKey(c.rel, "anon", c.mem / 2);
    world::Psi full{c.p10, c.p60, c.p60, (long long)(c.p10 * 1000)};
    world::setPsi(c.rel, "memory", full, full);
    world::setPsi(c.rel, "io", full, full);
    world::setFile(c.rel, "io.stat", "8:0 rbytes=" + std::to_string(c.mem / 4096) + " wbytes=0 rios=0 wios=0 dbytes=0 dios=0\n");
    world::setFile(c.rel, "memory.oom.group", std::to_string(c.oomGroup) + "\n");
    std::string ns = c.userXattr ? "user." : "trusted.";
    auto nsOf = [&](int o) { return o < 0 ? ns : std::string(o ? "user." : "trusted."); };
    if (c.pref & 1) world::setXattr(c.rel, nsOf(c.preferNs) + "oomd_prefer", "1");
    if (c.pref & 2) world::setXattr(c.rel, nsOf(c.avoidNs) + "oomd_avoid", "1");
    for (auto& x : c.xattrs) world::setXattr(c.rel, x.first, x.second);
    if (c.zeroLine) world::rawProcsLine(c.rel, "0");
    populate(c, c.nprocs);
  }
};

inline Outcome run(const Scenario& s, bool verbose = false) {
  Outcome out;
  sim::resetScript();
  vb::resetLog();
  vb::clockNs = vb::kEpochNs;
  sim::resetStats();
  world::reset();
  world::setMeminfo(s.memTotalKb, s.memTotalKb / 2, s.swapTotalKb, s.swapTotalKb - s.swapUsedKb);
  world::setSwaps(s.swapTotalKb, s.swapUsedKb);
  Builder b;
  b.home = &out.pidHome;
  for (auto& c : s.cgs) b.create(c);
  world::syncProcs();
  for (auto& c : s.cgs)
    if (c.populatedOverride) world::setFile(c.rel, "cgroup.events", "populated 0\nfrozen 0\n");
  std::string err;
  sim::IoCfg io;
  io.devs["8:0"] = Oomd::DeviceType::SSD;
  io.devs["8:16"] = Oomd::DeviceType::HDD;
  auto o = sim::make(configJson(s), &err, 5, "", io);
  if (!o) {
    out.rejected = err.empty() ? "rejected" : err;
    return out;
  }
  sim::decide = [](const std::string&, const std::string&) { return 0; };
  sim::hookDecide = s.hookDecide;
  world::afterKill = s.afterKill;
  vb::killLatencySec = s.killLatency;
  if (s.afterMake) s.afterMake(*o);
  out.tickStart.assign(s.ticks + 2, 0);
  out.killsStatAtTickEnd.assign(s.ticks + 2, 0);
  std::map<std::string, Cg> byRel;
  for (auto& c : s.cgs) byRel[c.rel] = c;
  int lastTick = 0;
  out.tick = sim::runTicks(
      *o, s.ticks,
      [&](int k) {
        if (lastTick >= 1) out.killsStatAtTickEnd[lastTick] = sim::statValue(Oomd::CoreStats::kKillsKey);
        lastTick = k;
        for (auto& st : s.steps) {
          if (st.tick != k) continue;
          Cg c = byRel.count(st.rel) ? byRel[st.rel] : Cg{};
          c.rel = st.rel;
          if (c.nprocs == 0) c.nprocs = 1;
          if (st.kind == 0) world::rmcg(st.rel);
          if (st.kind == 1) b.create(c);
          if (st.kind == 2) {
            world::rmcg(st.rel);
            b.create(c);
          }
          if (st.kind == 3) b.populate(c, 1);
          world::syncProcs();
        }
        // kill_by_pg_scan / io_cost need moving counters
        for (auto& rel : world::allCgroups()) {
          if (rel.empty() || !s.autoPgscan) continue;
          auto it = byRel.find(rel);
          long long base = it == byRel.end() ? 10 : it->second.pgscan;
          world::setMemStatKey(rel, "pgscan", base * k);
          long long io = it == byRel.end() ? 10 : it->second.mem / 4096;
          world::setFile(rel, "io.stat", "8:0 rbytes=" + std::to_string(io * k) + " wbytes=0 rios=0 wios=0 dbytes=0 dios=0\n");
        }
        if (s.onTick) {
          s.onTick(k);
          world::syncProcs();
        }
        out.tickStart[k] = vb::effects.size();
      },
      [&](int) { return s.tickSpacing; });
  if (lastTick >= 1) out.killsStatAtTickEnd[lastTick] = sim::statValue(Oomd::CoreStats::kKillsKey);
  out.tickStart[s.ticks + 1] = vb::effects.size();
  out.effects = vb::effects;
  out.calls = sim::calls;
  out.hooks = sim::hookEvents;
  vb::killLatencySec = 0;
  world::afterKill = nullptr;
  // parse attempts
  Attempt* cur = nullptr;
  for (size_t i = 0; i < out.effects.size(); i++) {
    auto& e = out.effects[i];
    int t = out.tickOfEffect(i);
    if (cur && t != cur->tick) {
      cur->effEnd = i;
      cur = nullptr;
    }
    if (e.kind == "setxattr" && e.arg == "trusted.oomd_kill_uuid") {
      if (cur) cur->effEnd = i;
      out.attempts.push_back(Attempt{});
      cur = &out.attempts.back();
      cur->tick = t;
      cur->victim = relOfDir(e.path);
      cur->uuid = e.val;
      cur->effBegin = i;
      cur->effEnd = out.effects.size();
    } else if (e.kind == "kill" && cur) {
      (e.ret == 0 ? cur->okPids : cur->failedPids).push_back((int)e.a);
    } else if (e.kind == "ctlwrite" && cur) {
      if (basePart(e.path) == "cgroup.kill") cur->killFileWritten = true;
      if (basePart(e.path) == "cgroup.freeze") cur->freezeWritten = true;
    } else if (e.kind == "kmsg" && e.arg.find("(dry)") != std::string::npos) {
      // dry-run "attempt": record is "oomd kill: <p10> <p60> <p300> <cgroup> <usage> ruleset:[..] ..."; the cgroup field is
      // empty for the root cgroup, so split on single blanks and keep empty fields
      Attempt a;
      a.tick = t;
      a.dry = true;
      std::vector<std::string> ws;
      {
        std::string rest = e.arg.substr(e.arg.find(": ") == std::string::npos ? 0 : e.arg.find(": ") + 2), curw;
        for (char ch : rest) {
          if (ch == ' ') {
            ws.push_back(curw);
            curw.clear();
          } else {
            curw += ch;
          }
        }
        ws.push_back(curw);
      }
      if (ws.size() > 3) a.victim = ws[3];
      a.effBegin = a.effEnd = i;
      if (cur) cur->effEnd = i;
      cur = nullptr;
      out.attempts.push_back(a);
    }
  }
  if (verbose) {
    printf("config: %s\n", configJson(s).c_str());
    for (size_t i = 0; i < out.effects.size(); i++)
      printf("  [t%d] %s\n", out.tickOfEffect(i), out.effects[i].str().substr(0, 300).c_str());
    for (auto& c : out.calls)
      if (c.method == "run") printf("  call t%d %s -> %c\n", c.tick, c.id.c_str(), "CSA"[c.ret]);
    for (auto& h : out.hooks) printf("  hook t%d %s %s inv=%ld cg=%s fin=%d\n", h.tick, h.kind.c_str(), h.hook.c_str(), h.inv, h.cgroup.c_str(), h.finished);
  }
  return out;
}

// independent legality of a victim for the configured patterns
inline bool legalVictim(const std::string& cgroupArg, bool recursive, const std::string& victim) {
  for (auto& pat : rg::splitComma(cgroupArg)) {
    if (rg::pathMatch(pat, victim)) return true;
    if (recursive && rg::matchOrDescends(pat, victim)) return true;
  }
  return false;
}

inline bool isUnderRel(const std::string& rel, const std::string& anc) {
  if (anc.empty()) return true;
  return rel == anc || (rel.size() > anc.size() && rel.compare(0, anc.size(), anc) == 0 && rel[anc.size()] == '/');
}

}  // namespace ks
