#include "common/runner.h"

#include <cxxabi.h>
#include <fcntl.h>
#include <poll.h>
#include <signal.h>
#include <sys/mman.h>
#include <sys/wait.h>
#include <unistd.h>

#include <algorithm>
#include <atomic>
#include <chrono>
#include <cstdio>
#include <cstring>
#include <exception>
#include <fstream>
#include <iostream>
#include <set>
#include <sstream>
#include <unordered_set>

#include "common/boundary.h"

namespace vr {

uint64_t fnv(const std::string& s, uint64_t h) {
  for (unsigned char c : s) {
    h ^= c;
    h *= 1099511628211ULL;
  }
  return h;
}

namespace {

constexpr int kMaxWorkers = 64;
struct Slot {
  std::atomic<int64_t> cur;
  std::atomic<int64_t> chunkEnd;
  std::atomic<int64_t> startedMs;
  char note[240];
};
struct Shared {
  std::atomic<uint64_t> next;
  std::atomic<int> stop;
  Slot w[kMaxWorkers];
};

char* g_noteSlot = nullptr;  // points into shared memory in a worker / alone-job
std::atomic<int64_t>* g_beat = nullptr;  // watchdog reference time of this worker / alone-job (shared memory)
char g_localNote[240];

int64_t nowMs() {
  using namespace std::chrono;
  // real clock of the PARENT / workers' watchdog: bypass the virtual clock via CLOCK_REALTIME
  struct timespec ts;
  ::clock_gettime(CLOCK_REALTIME, &ts);
  return ts.tv_sec * 1000LL + ts.tv_nsec / 1000000;
}

std::string esc(const std::string& s) {
  std::string o;
  o.reserve(s.size() + 8);
  for (char c : s) {
    if (c == '\\')
      o += "\\\\";
    else if (c == '\n')
      o += "\\n";
    else if (c == '\t')
      o += "\\t";
    else
      o += c;
  }
  return o;
}
std::string unesc(const std::string& s) {
  std::string o;
  for (size_t i = 0; i < s.size(); i++) {
    if (s[i] == '\\' && i + 1 < s.size()) {
      char n = s[++i];
      o += n == 'n' ? '\n' : n == 't' ? '\t' : n;
    } else {
      o += s[i];
    }
  }
  return o;
}
std::vector<std::string> splitTab(const std::string& s) {
  std::vector<std::string> r;
  size_t b = 0;
  for (size_t i = 0; i <= s.size(); i++)
    if (i == s.size() || s[i] == '\t') {
      r.push_back(s.substr(b, i - b));
      b = i + 1;
    }
  return r;
}

struct NullBuf : std::streambuf {
  int overflow(int c) override { return c; }
  std::streamsize xsputn(const char*, std::streamsize n) override { return n; }
};
NullBuf nullbuf;

std::string g_tmp;
std::string termFile() { return g_tmp + "/term." + std::to_string(getpid()); }

void onTerminate() {
  // record what was thrown and from where, then abort (ASan prints the abort stack)
  std::string type = "unknown", what;
  if (auto* t = abi::__cxa_current_exception_type()) {
    int st = 0;
    char* dm = abi::__cxa_demangle(t->name(), nullptr, nullptr, &st);
    type = dm ? dm : t->name();
    free(dm);
  }
  try {
    if (auto e = std::current_exception()) std::rethrow_exception(e);
  } catch (const std::exception& e) {
    what = e.what();
  } catch (...) {
  }
  std::string frames = vb::lastThrowFrames();
  FILE* f = ::fopen(termFile().c_str(), "w");
  if (f) {
    fprintf(f, "uncaught %s\nwhat: %s\nthrown from:\n%s", type.c_str(), what.c_str(), frames.c_str());
    fclose(f);
  }
  abort();
}

void sendAll(int fd, const std::string& s) {
  size_t off = 0;
  while (off < s.size()) {
    ssize_t n = ::write(fd, s.data() + off, s.size() - off);
    if (n < 0) {
      if (errno == EINTR) continue;
      _exit(3);
    }
    off += n;
  }
}

std::string fmtResult(size_t i, const Result& r) {
  std::ostringstream o;
  o << "R\t" << i << "\t" << r.evals << "\t";
  for (size_t k = 0; k < r.obs.size(); k++) o << (k ? "," : "") << std::hex << r.obs[k] << std::dec;
  o << "\t";
  bool first = true;
  for (auto& kv : r.counters) {
    o << (first ? "" : ",") << kv.first << "=" << kv.second;
    first = false;
  }
  o << "\n";
  for (auto& v : r.violations) o << "V\t" << i << "\t" << esc(v.sig) << "\t" << esc(v.detail) << "\n";
  return o.str();
}

struct Agg {
  uint64_t evals = 0, scenarios = 0;
  std::unordered_set<uint64_t> obs;
  std::map<std::string, long long> counters;
  struct V {
    size_t idx;
    std::string sig, detail;
  };
  std::vector<V> violations;
  std::vector<size_t> nontrivialIdx;
};

void absorb(Agg& a, const std::string& line) {
  auto f = splitTab(line);
  if (f.empty()) return;
  if (f[0] == "R" && f.size() >= 5) {
    a.scenarios++;
    a.evals += strtoull(f[2].c_str(), nullptr, 10);
    if (!f[3].empty()) {
      size_t b = 0;
      for (size_t i = 0; i <= f[3].size(); i++)
        if (i == f[3].size() || f[3][i] == ',') {
          a.obs.insert(strtoull(f[3].substr(b, i - b).c_str(), nullptr, 16));
          b = i + 1;
        }
      if (a.nontrivialIdx.size() < 4) a.nontrivialIdx.push_back(strtoull(f[1].c_str(), nullptr, 10));
    }
    if (!f[4].empty()) {
      std::stringstream ss(f[4]);
      std::string kv;
      while (std::getline(ss, kv, ',')) {
        auto eq = kv.find('=');
        if (eq == std::string::npos) continue;
        std::string key = kv.substr(0, eq);
        long long val = atoll(kv.c_str() + eq + 1);
        if (key.rfind("max_", 0) == 0)
          a.counters[key] = std::max(a.counters[key], val);  // max-aggregated
        else
          a.counters[key] += val;
      }
    }
  } else if (f[0] == "V" && f.size() >= 4) {
    a.violations.push_back({(size_t)strtoull(f[1].c_str(), nullptr, 10), unesc(f[2]), unesc(f[3])});
  }
}

std::string readFileHead(const std::string& p, size_t maxBytes = 9000) {
  std::ifstream f(p);
  if (!f) return "";
  std::string s(maxBytes, 0);
  f.read(&s[0], maxBytes);
  s.resize(f.gcount());
  return s;
}
std::string readFileTail(const std::string& p, size_t maxBytes = 20000) {
  std::ifstream f(p);
  if (!f) return "";
  std::stringstream ss;
  ss << f.rdbuf();
  std::string s = ss.str();
  if (s.size() > maxBytes) s = s.substr(s.size() - maxBytes);
  return s;
}

// turn a dead child's artefacts into (kind, detail)
std::pair<std::string, std::string> crashInfo(pid_t pid, int status, const std::string& errFile) {
  std::string san = readFileHead(g_tmp + "/san." + std::to_string(pid));
  std::string term = readFileTail(termFile().substr(0, termFile().rfind('.')) + "." + std::to_string(pid));
  std::string err = readFileTail(errFile, 4000);
  std::string kind;
  std::string all = san + "\n" + err;
  if (!term.empty()) {
    std::string first = term.substr(0, term.find('\n'));
    kind = first;  // "uncaught std::out_of_range"
  } else {
    size_t p;
    if ((p = all.find("ERROR: AddressSanitizer: ")) != std::string::npos) {
      size_t e = all.find_first_of(" \n", p + 25);
      std::string k = all.substr(p + 25, e - (p + 25));
      kind = (k == "ABRT") ? "abort" : "asan:" + k;
      if (k == "ABRT") {
        size_t a = all.find("Assertion '");
        if (a != std::string::npos) {
          size_t e2 = all.find("' failed", a);
          if (e2 != std::string::npos) kind = "assertion:" + all.substr(a + 11, e2 - a - 11);
        }
      }
    } else if ((p = all.find("runtime error: ")) != std::string::npos) {
      size_t e = all.find('\n', p);
      std::string m = all.substr(p + 15, e - (p + 15));
      std::string norm;  // drop concrete numbers so the signature is stable
      for (size_t i = 0; i < m.size(); i++) {
        if (isdigit((unsigned char)m[i]) || (m[i] == '-' && i + 1 < m.size() && isdigit((unsigned char)m[i + 1]))) {
          norm += 'N';
          while (i + 1 < m.size() && (isalnum((unsigned char)m[i + 1]) || m[i + 1] == '.' || m[i + 1] == '+')) i++;
        } else {
          norm += m[i];
        }
      }
      kind = "ubsan:" + norm;
    } else if (WIFSIGNALED(status)) {
      kind = "signal:" + std::to_string(WTERMSIG(status));
    } else {
      kind = "exit:" + std::to_string(WEXITSTATUS(status));
    }
  }
  std::string detail = term + (term.empty() ? "" : "\n") + san + (err.empty() ? "" : "\n--- stderr tail ---\n" + err);
  if (detail.size() > 12000) detail.resize(12000);
  return {kind, detail};
}

struct Ctx {
  Driver* d;
  size_t N;
  uint64_t seed;
  Shared* sh;
  size_t order(size_t j) const { return (j + seed % N) % N; }
};

// body of a worker process
[[noreturn]] void workerBody(const Ctx& c, int w, int fd, int64_t resumeFrom, int64_t resumeEnd, bool verbose) {
  std::set_terminate(onTerminate);
  g_noteSlot = c.sh->w[w].note;
  g_beat = &c.sh->w[w].startedMs;
  g_noteSlot[0] = 0;
  std::string errf = g_tmp + "/w" + std::to_string(w) + ".err";
  if (!verbose) {
    int e = ::open(errf.c_str(), O_WRONLY | O_CREAT | O_TRUNC, 0644);
    if (e >= 0) {
      dup2(e, 2);
      close(e);
    }
    std::cerr.rdbuf(&nullbuf);
    std::clog.rdbuf(&nullbuf);
  }
  c.d->workerInit();
  auto runOne = [&](size_t j) {
    c.sh->w[w].cur = (int64_t)j;
    c.sh->w[w].startedMs = nowMs();
    Result r;
    c.d->run(c.order(j), r, verbose);
    sendAll(fd, fmtResult(c.order(j), r));
  };
  size_t ch = std::max<size_t>(1, c.d->chunk());
  if (resumeFrom >= 0) {
    c.sh->w[w].chunkEnd = resumeEnd;
    for (int64_t j = resumeFrom; j < resumeEnd && !c.sh->stop; j++) runOne(j);
  }
  while (!c.sh->stop) {
    uint64_t a = c.sh->next.fetch_add(ch);
    if (a >= c.N) break;
    uint64_t b = std::min<uint64_t>(a + ch, c.N);
    c.sh->w[w].chunkEnd = (int64_t)b;
    for (uint64_t j = a; j < b; j++) {
      if (c.sh->stop) {
        // give the rest of the chunk back is not possible; mark as not done
        sendAll(fd, "U\t" + std::to_string(b - j) + "\n");
        break;
      }
      runOne(j);
    }
  }
  c.sh->w[w].cur = -1;
  sendAll(fd, "D\n");
  if (vb::root.rfind("/dev/shm/ov.", 0) == 0) vb::rawRmrf(vb::root);
  _exit(0);
}

struct Worker {
  pid_t pid = -1;
  int fd = -1;
  std::string buf;
  bool done = false;
};

// run scenarios alone, each in a fresh process, up to `par` at a time
struct AloneJob {
  size_t idx;
  double timeoutSec;
  // results
  std::vector<Violation> vs;
  uint64_t obsHash = 0;
  // internals
  pid_t pid = -1;
  int fd = -1;
  std::string buf;
  int64_t t0 = 0;
  bool timedOut = false, finished = false;
};

std::atomic<int64_t>* aloneBeats() {
  static auto* m = (std::atomic<int64_t>*)mmap(nullptr, sizeof(std::atomic<int64_t>) * 64, PROT_READ | PROT_WRITE, MAP_SHARED | MAP_ANONYMOUS, -1, 0);
  return m;
}

char* aloneNotes() {
  static char* m = (char*)mmap(nullptr, 240 * 64, PROT_READ | PROT_WRITE, MAP_SHARED | MAP_ANONYMOUS, -1, 0);
  return m;
}

void startJob(const Ctx& c, AloneJob& j, bool verbose, int slot) {
  char* notes = aloneNotes();
  notes[240 * (slot % 64)] = 0;
  aloneBeats()[slot % 64].store(nowMs());
  int p[2];
  if (pipe(p) != 0) {
    j.finished = true;
    return;
  }
  fflush(nullptr);
  pid_t pid = fork();
  if (pid == 0) {
    close(p[0]);
    std::set_terminate(onTerminate);
    g_noteSlot = notes + 240 * (slot % 64);
    g_beat = &aloneBeats()[slot % 64];
    if (!verbose) {
      std::string errf = g_tmp + "/alone" + std::to_string(slot) + ".err";
      int e = ::open(errf.c_str(), O_WRONLY | O_CREAT | O_TRUNC, 0644);
      if (e >= 0) {
        dup2(e, 2);
        close(e);
      }
      std::cerr.rdbuf(&nullbuf);
    }
    c.d->workerInit();
    Result r;
    c.d->run(j.idx, r, verbose);
    sendAll(p[1], fmtResult(j.idx, r));
    sendAll(p[1], "D\n");
    if (vb::root.rfind("/dev/shm/ov.", 0) == 0) vb::rawRmrf(vb::root);
    _exit(0);
  }
  close(p[1]);
  j.pid = pid;
  j.fd = p[0];
  j.t0 = nowMs();
}

void finishJob(const Ctx& c, AloneJob& j, int slot) {
  close(j.fd);
  j.fd = -1;
  int status = 0;
  waitpid(j.pid, &status, 0);
  Agg a;
  bool done = false;
  std::stringstream ss(j.buf);
  std::string line;
  while (std::getline(ss, line)) {
    if (line == "D") done = true;
    absorb(a, line);
  }
  for (auto& v : a.violations) j.vs.push_back({v.sig, v.detail});
  uint64_t h = 1469598103934665603ULL;
  std::vector<uint64_t> o(a.obs.begin(), a.obs.end());
  std::sort(o.begin(), o.end());
  for (auto x : o) h = fnv(std::to_string(x), h);
  for (auto& kv : a.counters)
    if (kv.first.rfind("nd_", 0) != 0) h = fnv(kv.first + "=" + std::to_string(kv.second), h);  // nd_ = may legitimately differ between runs
  j.obsHash = h;
  if (j.timedOut) {
    j.vs.push_back({c.d->id() + "|" + c.d->klass(j.idx) + "|hang",
                    "scenario did not finish within " + std::to_string(j.timeoutSec) + " s when run alone"});
  } else if (!done) {
    auto ci = crashInfo(j.pid, status, g_tmp + "/alone" + std::to_string(slot) + ".err");
    {
      char* nt = aloneNotes() + 240 * (slot % 64);
      std::string n(nt, strnlen(nt, 239));
      if (!n.empty()) ci.second = "while processing: " + n + "\n" + ci.second;
    }
    j.vs.push_back({c.d->id() + "|" + c.d->klass(j.idx) + "|crash:" + ci.first + "|%FUNC%", ci.second});
  }
  ::unlink((g_tmp + "/san." + std::to_string(j.pid)).c_str());
  ::unlink((g_tmp + "/term." + std::to_string(j.pid)).c_str());
  if (vb::rawExists("/dev/shm/ov." + std::to_string(j.pid))) vb::rawRmrf("/dev/shm/ov." + std::to_string(j.pid));
  j.finished = true;
}

void runJobs(const Ctx& c, std::vector<AloneJob>& jobs, int par, bool verbose = false) {
  size_t next = 0;
  std::vector<int> running;  // job indices; slot = position
  std::vector<int> slotOf(jobs.size(), -1);
  std::vector<bool> slotBusy(par, false);
  size_t finished = 0;
  while (finished < jobs.size()) {
    while (next < jobs.size() && (int)running.size() < par) {
      int slot = 0;
      while (slotBusy[slot]) slot++;
      slotBusy[slot] = true;
      slotOf[next] = slot;
      startJob(c, jobs[next], verbose, slot);
      if (jobs[next].finished) {
        finished++;
        slotBusy[slot] = false;
      } else {
        running.push_back((int)next);
      }
      next++;
    }
    std::vector<struct pollfd> pfs;
    for (int ji : running) pfs.push_back({jobs[ji].fd, POLLIN, 0});
    poll(pfs.data(), pfs.size(), 200);
    std::vector<int> still;
    for (size_t k = 0; k < running.size(); k++) {
      AloneJob& j = jobs[running[k]];
      bool eof = false;
      if (pfs[k].revents & (POLLIN | POLLHUP | POLLERR)) {
        char b[65536];
        ssize_t n = read(j.fd, b, sizeof b);
        if (n > 0)
          j.buf.append(b, n);
        else
          eof = true;
      }
      // the limit applies to the time since the job last reported progress (an exploration may legitimately run for long)
      if (!eof && (nowMs() - std::max<int64_t>(j.t0, aloneBeats()[slotOf[running[k]] % 64].load())) / 1000.0 > j.timeoutSec) {
        ::kill(j.pid, SIGKILL);
        j.timedOut = true;
        eof = true;
      }
      if (eof) {
        finishJob(c, j, slotOf[running[k]]);
        slotBusy[slotOf[running[k]]] = false;
        finished++;
      } else {
        still.push_back(running[k]);
      }
    }
    running.swap(still);
  }
}

std::vector<Violation> runAlone(const Ctx& c, size_t idx, double timeoutSec, bool verbose) {
  std::vector<AloneJob> jobs(1);
  jobs[0].idx = idx;
  jobs[0].timeoutSec = timeoutSec;
  runJobs(c, jobs, 1, verbose);
  return jobs[0].vs;
}

}  // namespace

void progress() {
  if (g_beat) g_beat->store(nowMs());
}

void note(const std::string& s) {
  char* dst = g_noteSlot ? g_noteSlot : g_localNote;
  size_t n = std::min<size_t>(s.size(), 239);
  memcpy(dst, s.data(), n);
  dst[n] = 0;
}

int main(int argc, char** argv, Driver& d) {
  std::string tier = "quick", out, replay;
  uint64_t seed = 0;
  int jobs = 16;
  bool list = false;
  g_tmp = "/tmp";
  for (int i = 1; i < argc; i++) {
    std::string a = argv[i];
    auto next = [&]() { return std::string(i + 1 < argc ? argv[++i] : ""); };
    if (a == "--tier")
      tier = next();
    else if (a == "--seed")
      seed = strtoull(next().c_str(), nullptr, 10);
    else if (a == "--out")
      out = next();
    else if (a == "--tmp")
      g_tmp = next();
    else if (a == "--jobs")
      jobs = atoi(next().c_str());
    else if (a == "--replay")
      replay = next();
    else if (a == "--list")
      list = true;
  }
  if (list) {
    d.configure(tier, seed);
    for (size_t i = 0; i < d.count(); i++) printf("%zu\t%s\n", i, d.describe(i).c_str());
    return 0;
  }
  jobs = std::max(1, std::min(jobs, kMaxWorkers));
  {
    // sanitizer reports of every forked child go to <tmp>/san.<pid>
    // (ASAN_OPTIONS log_path is set by ./check; nothing to do here)
  }

  Shared* sh = (Shared*)mmap(nullptr, sizeof(Shared), PROT_READ | PROT_WRITE, MAP_SHARED | MAP_ANONYMOUS, -1, 0);
  new (sh) Shared();
  sh->next = 0;
  sh->stop = 0;

  if (!replay.empty()) {
    Json::Value rj;
    std::ifstream f(replay);
    f >> rj;
    tier = rj.get("tier", tier).asString();
    d.configure(tier, 0);
    Ctx c{&d, d.count(), 0, sh};
    size_t idx = rj["replay"]["index"].asUInt64();
    printf("replaying %s scenario %zu (tier %s): %s\n", d.id().c_str(), idx, tier.c_str(), d.describe(idx).c_str());
    fflush(stdout);
    auto vs = runAlone(c, idx, d.scenarioTimeoutSec() * 10, true);
    for (auto& v : vs) printf("VIOLATION-SIGNATURE %s\n%s\n", v.sig.c_str(), v.detail.c_str());
    printf("replay finished: %zu violation(s)\n", vs.size());
    return vs.empty() ? 0 : 1;
  }

  d.configure(tier, seed);
  Ctx c{&d, d.count(), seed, sh};
  if (c.N == 0) {
    fprintf(stderr, "driver has no scenarios\n");
    return 2;
  }
  int64_t t0 = nowMs();
  double deadline = d.deadlineSec(tier);
  if (const char* e = getenv("VERIF_DEADLINE_S")) deadline = atof(e);

  const int jobs_par = jobs;
  std::vector<Worker> ws(jobs);
  Agg agg;
  struct Crash {
    size_t idx;
    std::string kind, detail;
    bool hang;
  };
  std::vector<Crash> crashes;
  uint64_t undone = 0;

  auto spawn = [&](int w, int64_t rf, int64_t re) {
    int p[2];
    if (pipe(p) != 0) {
      perror("pipe");
      exit(2);
    }
    sh->w[w].cur = -1;
    sh->w[w].startedMs = nowMs();
    fflush(nullptr);
    pid_t pid = fork();
    if (pid == 0) {
      close(p[0]);
      for (auto& o : ws)
        if (o.fd >= 0) close(o.fd);
      workerBody(c, w, p[1], rf, re, false);
    }
    close(p[1]);
    ws[w].pid = pid;
    ws[w].fd = p[0];
    ws[w].buf.clear();
    ws[w].done = false;
  };
  for (int w = 0; w < jobs; w++) spawn(w, -1, -1);

  bool deadlineHit = false;
  int live = jobs;
  while (live > 0) {
    std::vector<struct pollfd> pfs;
    std::vector<int> idx;
    for (int w = 0; w < jobs; w++)
      if (ws[w].fd >= 0) {
        pfs.push_back({ws[w].fd, POLLIN, 0});
        idx.push_back(w);
      }
    poll(pfs.data(), pfs.size(), 200);
    for (size_t k = 0; k < pfs.size(); k++) {
      int w = idx[k];
      if (!(pfs[k].revents & (POLLIN | POLLHUP | POLLERR))) continue;
      char b[1 << 16];
      ssize_t n = read(ws[w].fd, b, sizeof b);
      if (n > 0) {
        ws[w].buf.append(b, n);
        size_t pos;
        while ((pos = ws[w].buf.find('\n')) != std::string::npos) {
          std::string line = ws[w].buf.substr(0, pos);
          ws[w].buf.erase(0, pos + 1);
          if (line == "D")
            ws[w].done = true;
          else if (line.rfind("U\t", 0) == 0)
            undone += strtoull(line.c_str() + 2, nullptr, 10);
          else
            absorb(agg, line);
        }
        continue;
      }
      // EOF: worker gone
      close(ws[w].fd);
      ws[w].fd = -1;
      int status = 0;
      waitpid(ws[w].pid, &status, 0);
      if (ws[w].done) {
        live--;
        continue;
      }
      int64_t cur = sh->w[w].cur, end = sh->w[w].chunkEnd;
      bool hang = WIFSIGNALED(status) && WTERMSIG(status) == SIGKILL;
      auto ci = crashInfo(ws[w].pid, status, g_tmp + "/w" + std::to_string(w) + ".err");
      ::unlink((g_tmp + "/san." + std::to_string(ws[w].pid)).c_str());
      ::unlink((g_tmp + "/term." + std::to_string(ws[w].pid)).c_str());
      if (vb::rawExists("/dev/shm/ov." + std::to_string(ws[w].pid))) vb::rawRmrf("/dev/shm/ov." + std::to_string(ws[w].pid));
      if (cur < 0) {
        // died outside a scenario (init): harness problem
        fprintf(stderr, "worker %d died outside a scenario: %s\n%s\n", w, ci.first.c_str(), ci.second.c_str());
        Json::Value res;
        res["harness_error"] = "worker died outside a scenario: " + ci.first + "\n" + ci.second.substr(0, 3000);
        std::ofstream(out) << res;
        return 2;
      }
      std::string nt(sh->w[w].note, strnlen(sh->w[w].note, 239));
      if (!nt.empty()) ci.second = "while processing: " + nt + "\n" + ci.second;
      crashes.push_back({c.order((size_t)cur), ci.first, ci.second, hang});
      if (crashes.size() > 2000) {
        sh->stop = 1;  // something is systematically broken; stop early, report what we have
      }
      if (!sh->stop)
        spawn(w, cur + 1, end);
      else
        live--;
    }
    // watchdog + deadline
    int64_t now = nowMs();
    for (int w = 0; w < jobs; w++) {
      if (ws[w].fd < 0 || sh->w[w].cur < 0) continue;
      if ((now - sh->w[w].startedMs) / 1000.0 > d.scenarioTimeoutSec()) {
        ::kill(ws[w].pid, SIGKILL);
        sh->w[w].startedMs = now;
      }
    }
    if (!deadlineHit && (now - t0) / 1000.0 > deadline) {
      deadlineHit = true;
      sh->stop = 1;
    }
  }
  uint64_t claimed = std::min<uint64_t>(sh->next.load(), c.N);
  bool exhaustive = !deadlineHit && !sh->stop && claimed >= c.N && undone == 0 && crashes.empty();

  // ---- verification pass: crashes are re-run alone; every distinct violation is replayed twice
  struct Final {
    size_t idx;
    std::string sig, detail;
  };
  std::vector<Final> finals;
  std::string harnessError;
  std::map<std::string, size_t> firstBySig;
  for (auto& v : agg.violations) {
    finals.push_back({v.idx, v.sig, v.detail});
    firstBySig.emplace(v.sig, v.idx);
  }
  // crashes: classify by re-running alone (gives a clean, attributable report); cap the work
  {
    std::map<std::string, int> crashKindSeen;
    std::vector<AloneJob> jobs;
    std::vector<size_t> crashOf;
    for (size_t ci = 0; ci < crashes.size(); ci++) {
      auto& cr = crashes[ci];
      std::string pre = d.id() + "|" + d.klass(cr.idx) + "|" + (cr.hang ? "hang" : "crash:" + cr.kind);
      if (crashKindSeen[pre]++ >= 3) {
        finals.push_back({cr.idx, pre + (cr.hang ? "" : "|%FUNC%"), cr.detail});
        continue;
      }
      AloneJob j;
      j.idx = cr.idx;
      j.timeoutSec = d.scenarioTimeoutSec() * (cr.hang ? 10 : 2);
      jobs.push_back(j);
      crashOf.push_back(ci);
    }
    runJobs(c, jobs, jobs_par);
    for (size_t k = 0; k < jobs.size(); k++) {
      auto& cr = crashes[crashOf[k]];
      bool again = false;
      for (auto& v : jobs[k].vs) {
        bool isCrash = v.sig.find("|crash:") != std::string::npos || v.sig.find("|hang") != std::string::npos;
        if (isCrash) again = true;
        finals.push_back({cr.idx, v.sig, v.detail});
        firstBySig.emplace(v.sig, cr.idx);
      }
      if (!again && !cr.hang) {
        harnessError = "crash of scenario " + std::to_string(cr.idx) + " (" + cr.kind +
                       ") did not reproduce when run alone: " + d.describe(cr.idx) + "\n" + cr.detail.substr(0, 2000);
      }
      // a hang that finishes with 10x the limit is not a hang (slow machine): dropped
    }
  }
  // determinism gate: every distinct non-crash violation is replayed twice in fresh processes;
  // plus a fixed sample of passing scenarios is double-run and their observations compared
  int gated = 0, detChecked = 0;
  {
    std::vector<AloneJob> jobs;
    std::vector<std::string> sigOf;
    for (auto& kv : firstBySig) {
      if (kv.first.find("|crash:") != std::string::npos || kv.first.find("|hang") != std::string::npos) continue;
      if (gated++ >= 40) break;
      for (int rep = 0; rep < 2; rep++) {
        AloneJob j;
        j.idx = kv.second;
        j.timeoutSec = d.scenarioTimeoutSec() * 2;
        jobs.push_back(j);
        sigOf.push_back(kv.first);
      }
    }
    size_t nGate = jobs.size();
    size_t tieBreaks = 0;
    int nDet = (nowMs() - t0) / 1000.0 < deadline * 0.8 ? 4 : 1;
    for (int k = 0; k < nDet; k++) {
      size_t idx = nDet == 1 ? 0 : (size_t)((c.N - 1) * (double)k / (nDet - 1));
      for (int rep = 0; rep < 2; rep++) {
        AloneJob j;
        j.idx = idx;
        j.timeoutSec = d.scenarioTimeoutSec() * 2;
        jobs.push_back(j);
      }
      detChecked++;
    }
    runJobs(c, jobs, jobs_par);
    for (size_t k = 0; k < nGate; k++) {
      bool found = false;
      for (auto& v : jobs[k].vs) found |= (v.sig == sigOf[k]);
      if (!found)
        harnessError = "HARNESS-NONDETERMINISM: violation '" + sigOf[k] + "' of scenario " +
                       std::to_string(jobs[k].idx) + " did not reproduce on replay";
    }
    for (size_t k = nGate; k + 1 < jobs.size(); k += 2) {
      if (jobs[k].obsHash != jobs[k + 1].obsHash || jobs[k].vs.size() != jobs[k + 1].vs.size()) {
        bool settled = false;
        if (d.tieBreakNondeterminism()) {
          // drivers that run real threads over real kernel objects: a third run decides (two equal observations out of three)
          std::vector<AloneJob> third(1);
          third[0].idx = jobs[k].idx;
          third[0].timeoutSec = d.scenarioTimeoutSec() * 2;
          runJobs(c, third, 1);
          auto same = [&](const AloneJob& a, const AloneJob& b) { return a.obsHash == b.obsHash && a.vs.size() == b.vs.size(); };
          settled = same(third[0], jobs[k]) || same(third[0], jobs[k + 1]);
          tieBreaks++;
        }
        if (!settled)
          harnessError = "HARNESS-NONDETERMINISM: scenario " + std::to_string(jobs[k].idx) +
                         " observed differently on two runs: " + d.describe(jobs[k].idx);
      }
    }
  }

  Json::Value res;
  if (!harnessError.empty()) res["harness_error"] = harnessError;
  Json::Value vj(Json::arrayValue);
  for (auto& f : finals) {
    Json::Value v;
    v["sig"] = f.sig;
    v["detail"] = "scenario " + std::to_string(f.idx) + ": " + d.describe(f.idx) + "\n" + f.detail;
    v["replay"]["index"] = (Json::UInt64)f.idx;
    v["replay"]["tier"] = tier;
    v["replay"]["scenario"] = d.describe(f.idx);
    vj.append(v);
  }
  res["violations"] = vj;
  Json::Value cov;
  cov["evaluations"] = (Json::UInt64)agg.evals;
  cov["scenarios"] = (Json::UInt64)agg.scenarios;
  cov["scenario_space"] = (Json::UInt64)c.N;
  cov["distinct_nontrivial"] = (Json::UInt64)agg.obs.size();
  cov["rule"] = d.rule();
  cov["exhaustive"] = exhaustive;
  cov["deadline_hit"] = deadlineHit;
  cov["crashed_scenarios"] = (Json::UInt64)crashes.size();
  cov["determinism_double_runs"] = detChecked + gated * 2;
  cov["bounds"] = d.bounds();
  Json::Value cj(Json::objectValue);
  for (auto& kv : agg.counters) cj[kv.first] = (Json::Int64)kv.second;
  cov["counters"] = cj;
  if (agg.counters.count("states")) {
    cov["states"] = (Json::Int64)agg.counters["states"];
    cov["transitions"] = (Json::Int64)agg.counters["transitions"];
    cov["traces_validated_against_impl"] = (Json::UInt64)agg.evals;
  }
  Json::Value samples(Json::arrayValue);
  std::set<size_t> sidx = {0, c.N / 2, c.N - 1};
  for (auto i : agg.nontrivialIdx) sidx.insert(i);
  for (auto i : sidx) samples.append(d.describe(i));
  cov["samples"] = samples;
  if (!exhaustive)
    cov["explanation"] = "run stopped early (deadline or crash cap); scenarios fully covered: " +
                         std::to_string(agg.scenarios) + " of " + std::to_string(c.N);
  res["evidence"]["coverage"] = cov;
  Json::Value as(Json::arrayValue);
  for (auto& a : d.assumptions()) as.append(a);
  res["evidence"]["assumptions"] = as;
  std::ofstream(out) << res;
  return finals.empty() ? 0 : 1;
}

}  // namespace vr
