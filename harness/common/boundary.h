// Interposed libc boundary (E1, sequential drivers).  The harness executable defines the
// libc entry points oomd uses to touch the outside world; static linking binds liboomd's
// calls to them and -rdynamic lets libstdc++.so's calls (ifstream, steady_clock,
// this_thread::sleep_for) bind to them as well.  See DESIGN.md 2.2.
#pragma once
#include <cstdint>
#include <functional>
#include <string>
#include <vector>

namespace vb {

struct Effect {
  std::string kind;  // kill setxattr ctlwrite kmsg syscall sleep sdbus open
  std::string path;  // file / cgroup dir the effect hit ("" when n/a)
  std::string arg;   // xattr name, file text, syscall name ...
  std::string val;   // xattr value ...
  long a = 0;        // pid, syscall arg ...
  long b = 0;        // signal ...
  int ret = 0;
  int err = 0;
  int64_t tNs = 0;   // virtual time when the effect happened (set by the boundary)
  std::string str() const;
};

extern std::vector<Effect> effects;
extern std::vector<std::string> badFdUses;  // fd-taking calls of the code under test that failed with EBADF (closed descriptor used / double close)
extern double killLatencySec;  // virtual time a kill(2) call takes (0 by default)
extern bool logOpens;       // also record every file access as an "open" effect
extern long accessCount;    // file-access points seen (fault-injection index)
extern bool dtUnknown;      // readdir reports DT_UNKNOWN
extern std::string root;    // scratch root (fixed path inside the private mount namespace)

// virtual monotonic clock (ns). Epoch is large on purpose (time_point{} is a sentinel in oomd).
extern int64_t clockNs;
static constexpr int64_t kEpochNs = 1000000000LL * 1000000000LL;
inline double nowSec() { return (clockNs - kEpochNs) / 1e9; }
void advanceClock(double sec);

struct Horizon {};  // thrown out of sigtimedwait when the scripted run is over

// hooks (all optional)
extern std::function<int(int pid, int sig)> onKill;  // 0 or errno
extern std::function<void(const std::string& path, const std::string& data)> onCtlWrite;
// before every file access; return errno (>0) to fail the access, 0 to proceed
extern std::function<int(const char* op, const std::string& path)> onAccess;
extern std::function<bool()> onTick;  // false => throw Horizon
extern std::function<long(long nr, long a, long b)> onSyscall;

void enterNamespace();  // unshare(CLONE_NEWNS) + private tmpfs at root, seccomp guard for kill
void resetLog();
bool selfTest(std::string* why);  // every interposed entry point reachable from liboomd/libstdc++?

// file helpers that bypass logging / fault injection / access counting
void rawWrite(const std::string& path, const std::string& data);
bool rawRead(const std::string& path, std::string* out);
void rawMkdirs(const std::string& path);
void rawRmrf(const std::string& path);
bool rawExists(const std::string& path);
void rawSetXattr(const std::string& path, const std::string& name, const std::string& val);
void rawRmXattr(const std::string& path, const std::string& name);
bool rawGetXattr(const std::string& path, const std::string& name, std::string* out);
std::vector<std::string> rawListDir(const std::string& path);

// backtrace of the most recent C++ throw, as "(exe+0xoff)" frames for offline symbolisation
std::string lastThrowFrames();
std::string exePath();

struct Bypass {  // RAII: harness-own libc use inside this scope is not logged / faulted
  Bypass();
  ~Bypass();
};

}  // namespace vb
