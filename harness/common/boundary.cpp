// See boundary.h.  NOTE: this TU is compiled WITHOUT -D_FILE_OFFSET_BITS=64 so that `open`
// and `open64` (etc.) are distinct symbols that can both be defined here.
#include "common/boundary.h"

#include <dirent.h>
#include <dlfcn.h>
#include <errno.h>
#include <execinfo.h>
#include <fcntl.h>
#include <linux/filter.h>
#include <linux/seccomp.h>
#include <sched.h>
#include <signal.h>
#include <stdarg.h>
#include <stddef.h>
#include <stdio.h>
#include <stdlib.h>
#include <string.h>
#include <sys/mount.h>
#include <sys/prctl.h>
#include <sys/stat.h>
#include <sys/syscall.h>
#include <sys/xattr.h>
#include <time.h>
#include <typeinfo>
#include <unistd.h>

namespace vb {

int64_t clockNs = kEpochNs;
std::vector<Effect> effects;
std::vector<std::string> badFdUses;
double killLatencySec = 0;
// a call of the code under test that fails with EBADF used (or closed) a descriptor that is not open: always a defect
template <class T>
static T noteBadFd(const char* op, int fd, T ret) {
  if (ret < 0 && errno == EBADF && fd != AT_FDCWD) {
    int e = errno;
    badFdUses.push_back(std::string(op) + "(fd=" + std::to_string(fd) + ") failed with EBADF");
    errno = e;
  }
  return ret;
}
static void pushEffect(Effect e) {
  e.tNs = clockNs;
  effects.push_back(std::move(e));
}
bool logOpens = false;
long accessCount = 0;
bool dtUnknown = false;
std::string root;
std::function<int(int, int)> onKill;
std::function<void(const std::string&, const std::string&)> onCtlWrite;
std::function<int(const char*, const std::string&)> onAccess;
std::function<bool()> onTick;
std::function<long(long, long, long)> onSyscall;

static bool active = false;
static thread_local int bypassDepth = 0;
static char rootC[256];
static size_t rootLen = 0;

Bypass::Bypass() { bypassDepth++; }
Bypass::~Bypass() { bypassDepth--; }

std::string Effect::str() const {
  char buf[128];
  snprintf(buf, sizeof buf, " a=%ld b=%ld ret=%d err=%d", a, b, ret, err);
  return kind + " " + path + " [" + arg + "]" + (val.empty() ? "" : " =" + val) + buf;
}

void advanceClock(double sec) { clockNs += (int64_t)(sec * 1e9); }
void resetLog() {
  badFdUses.clear();
  effects.clear();
  accessCount = 0;
}

template <typename T>
static T real(const char* name) {
  void* p = dlsym(RTLD_NEXT, name);
  if (!p) {
    fprintf(stderr, "boundary: cannot resolve %s\n", name);
    abort();
  }
  return (T)p;
}
#define REAL(var, type, name) \
  static type var = nullptr;  \
  if (!var) var = real<type>(name)

static bool underRoot(const char* p) {
  return active && rootLen && strncmp(p, rootC, rootLen) == 0 && (p[rootLen] == '/' || p[rootLen] == 0);
}

static std::string fdPath(int fd) {
  if (fd == AT_FDCWD) return ".";
  char l[64], b[4096];
  snprintf(l, sizeof l, "/proc/self/fd/%d", fd);
  ssize_t n = readlink(l, b, sizeof b - 1);
  if (n <= 0) return "";
  b[n] = 0;
  std::string s(b);
  static const char del[] = " (deleted)";
  if (s.size() > sizeof del - 1 && s.compare(s.size() - (sizeof del - 1), sizeof del - 1, del) == 0)
    s.resize(s.size() - (sizeof del - 1));
  return s;
}

// /proc and /sys are served from the scratch tree so oomd can never touch the host's
static std::string remap(const char* p) {
  if (active && (strncmp(p, "/proc/", 6) == 0 || strncmp(p, "/sys/", 5) == 0 || strcmp(p, "/dev/kmsg") == 0))
    return std::string(rootC) + p;
  return p;
}

// returns errno to inject, or 0
static int access(const char* op, const std::string& full) {
  if (!active || bypassDepth || !underRoot(full.c_str())) return 0;
  accessCount++;
  if (onAccess) {
    bypassDepth++;
    int e = onAccess(op, full);
    bypassDepth--;
    if (e > 0) {
      if (logOpens) pushEffect(Effect{"open", full, op, "", accessCount, 0, -1, e});
      return e;
    }
  }
  if (logOpens) pushEffect(Effect{"open", full, op, "", accessCount, 0, 0, 0});
  return 0;
}

// ---- raw helpers ------------------------------------------------------------------------
typedef int (*open_t)(const char*, int, ...);
static int ropen(const char* p, int flags, mode_t mode = 0) {
  REAL(f, open_t, "open");
  return f(p, flags, mode);
}
typedef ssize_t (*write_t)(int, const void*, size_t);
static ssize_t rwrite(int fd, const void* b, size_t n) {
  REAL(f, write_t, "write");
  return f(fd, b, n);
}

void rawWrite(const std::string& path, const std::string& data) {
  int fd = ropen(path.c_str(), O_WRONLY | O_CREAT | O_TRUNC, 0644);
  if (fd < 0) return;
  size_t off = 0;
  while (off < data.size()) {
    ssize_t n = rwrite(fd, data.data() + off, data.size() - off);
    if (n <= 0) break;
    off += n;
  }
  close(fd);
}
bool rawRead(const std::string& path, std::string* out) {
  int fd = ropen(path.c_str(), O_RDONLY);
  if (fd < 0) return false;
  out->clear();
  char b[8192];
  ssize_t n;
  while ((n = read(fd, b, sizeof b)) > 0) out->append(b, n);
  close(fd);
  return true;
}
void rawMkdirs(const std::string& path) {
  for (size_t i = 1; i <= path.size(); i++)
    if (i == path.size() || path[i] == '/') mkdir(path.substr(0, i).c_str(), 0755);
}
bool rawExists(const std::string& path) {
  struct stat st;
  return lstat(path.c_str(), &st) == 0;
}
std::vector<std::string> rawListDir(const std::string& path) {
  std::vector<std::string> r;
  int fd = ropen(path.c_str(), O_RDONLY | O_DIRECTORY);
  if (fd < 0) return r;
  DIR* d = fdopendir(fd);
  if (!d) {
    close(fd);
    return r;
  }
  typedef struct dirent* (*rd_t)(DIR*);
  REAL(f, rd_t, "readdir");
  while (struct dirent* e = f(d)) {
    if (!strcmp(e->d_name, ".") || !strcmp(e->d_name, "..")) continue;
    r.push_back(e->d_name);
  }
  closedir(d);
  return r;
}
void rawRmrf(const std::string& path) {
  struct stat st;
  if (lstat(path.c_str(), &st) != 0) return;
  if (S_ISDIR(st.st_mode)) {
    for (auto& n : rawListDir(path)) rawRmrf(path + "/" + n);
    rmdir(path.c_str());
  } else {
    unlink(path.c_str());
  }
}
typedef int (*setxattr_t)(const char*, const char*, const void*, size_t, int);
typedef ssize_t (*getxattr_t)(const char*, const char*, void*, size_t);
void rawSetXattr(const std::string& path, const std::string& name, const std::string& val) {
  REAL(f, setxattr_t, "setxattr");
  f(path.c_str(), name.c_str(), val.data(), val.size(), 0);
}
void rawRmXattr(const std::string& path, const std::string& name) { removexattr(path.c_str(), name.c_str()); }
bool rawGetXattr(const std::string& path, const std::string& name, std::string* out) {
  REAL(f, getxattr_t, "getxattr");
  char b[512];
  ssize_t n = f(path.c_str(), name.c_str(), b, sizeof b);
  if (n < 0) return false;
  out->assign(b, n);
  return true;
}

std::string exePath() {
  static std::string p;
  if (p.empty()) {
    char b[4096];
    ssize_t n = readlink("/proc/self/exe", b, sizeof b - 1);
    if (n > 0) p.assign(b, n);
  }
  return p;
}

static void* throwBt[24];
static int throwBtN = 0;
std::string lastThrowFrames() {
  std::string out;
  std::string exe = exePath();
  for (int i = 1; i < throwBtN; i++) {
    Dl_info di;
    if (dladdr(throwBt[i], &di) && di.dli_fname && di.dli_fbase) {
      std::string fn = di.dli_fname;
      bool isExe = (fn == exe) || fn.find("/bin/C") != std::string::npos || fn[0] != '/';
      if (!isExe) continue;
      char b[96];
      // return address - 1 so the symboliser lands inside the calling line
      snprintf(b, sizeof b, "0x%lx", (unsigned long)((char*)throwBt[i] - (char*)di.dli_fbase - 1));
      out += "    #" + std::to_string(i) + " (" + exe + "+" + b + ")\n";
    }
  }
  return out;
}

static void installSeccompKillGuard() {
  struct sock_filter filter[] = {
      BPF_STMT(BPF_LD | BPF_W | BPF_ABS, offsetof(struct seccomp_data, nr)),
      BPF_JUMP(BPF_JMP | BPF_JEQ | BPF_K, __NR_kill, 0, 1),
      BPF_STMT(BPF_RET | BPF_K, SECCOMP_RET_ERRNO | (EPERM & SECCOMP_RET_DATA)),
      BPF_STMT(BPF_RET | BPF_K, SECCOMP_RET_ALLOW),
  };
  struct sock_fprog prog = {(unsigned short)(sizeof filter / sizeof filter[0]), filter};
  if (prctl(PR_SET_NO_NEW_PRIVS, 1, 0, 0, 0) == 0) prctl(PR_SET_SECCOMP, SECCOMP_MODE_FILTER, &prog);
}

void enterNamespace() {
  const char* fixed = "/dev/shm/ov";
  bool ok = false;
  if (unshare(CLONE_NEWNS) == 0) {
    mount("none", "/", nullptr, MS_REC | MS_PRIVATE, nullptr);
    mkdir(fixed, 0755);
    if (mount("tmpfs", fixed, "tmpfs", 0, "size=1g,mode=0755") == 0) {
      root = fixed;
      ok = true;
    }
  }
  if (!ok) {  // fallback: per-process scratch, removed by the runner
    char b[128];
    snprintf(b, sizeof b, "/dev/shm/ov.%d", (int)getpid());
    rawRmrf(b);
    mkdir(b, 0755);
    root = b;
  }
  snprintf(rootC, sizeof rootC, "%s", root.c_str());
  rootLen = strlen(rootC);
  installSeccompKillGuard();
  active = true;
}

}  // namespace vb

using namespace vb;

// ======================================================================================
// interposed entry points
// ======================================================================================
extern "C" {

static int open_common(const char* realname, const char* path, int flags, mode_t mode) {
  REAL(f, open_t, "open");
  (void)realname;
  std::string p = remap(path);
  if (int e = access("open", p)) {
    errno = e;
    return -1;
  }
  return f(p.c_str(), flags, mode);
}
int open(const char* path, int flags, ...) {
  mode_t mode = 0;
  if (flags & (O_CREAT | O_TMPFILE)) {
    va_list ap;
    va_start(ap, flags);
    mode = va_arg(ap, mode_t);
    va_end(ap);
  }
  return open_common("open", path, flags, mode);
}
int open64(const char* path, int flags, ...) {
  mode_t mode = 0;
  if (flags & (O_CREAT | O_TMPFILE)) {
    va_list ap;
    va_start(ap, flags);
    mode = va_arg(ap, mode_t);
    va_end(ap);
  }
  return open_common("open64", path, flags | O_LARGEFILE, mode);
}

typedef int (*openat_t)(int, const char*, int, ...);
static int openat_common(int dirfd, const char* path, int flags, mode_t mode) {
  REAL(f, openat_t, "openat");
  if (!active || bypassDepth) return f(dirfd, path, flags, mode);
  if (path[0] == '/') {
    std::string p = remap(path);
    if (int e = access("openat", p)) {
      errno = e;
      return -1;
    }
    return f(dirfd, p.c_str(), flags, mode);
  }
  std::string full = fdPath(dirfd) + "/" + path;
  if (int e = access("openat", full)) {
    errno = e;
    return -1;
  }
  return noteBadFd("openat", dirfd, f(dirfd, path, flags, mode));
}
int openat(int dirfd, const char* path, int flags, ...) {
  mode_t mode = 0;
  if (flags & (O_CREAT | O_TMPFILE)) {
    va_list ap;
    va_start(ap, flags);
    mode = va_arg(ap, mode_t);
    va_end(ap);
  }
  return openat_common(dirfd, path, flags, mode);
}
int openat64(int dirfd, const char* path, int flags, ...) {
  mode_t mode = 0;
  if (flags & (O_CREAT | O_TMPFILE)) {
    va_list ap;
    va_start(ap, flags);
    mode = va_arg(ap, mode_t);
    va_end(ap);
  }
  return openat_common(dirfd, path, flags | O_LARGEFILE, mode);
}

typedef FILE* (*fopen_t)(const char*, const char*);
FILE* fopen(const char* path, const char* mode) {
  REAL(f, fopen_t, "fopen");
  std::string p = remap(path);
  if (int e = access("fopen", p)) {
    errno = e;
    return nullptr;
  }
  return f(p.c_str(), mode);
}
FILE* fopen64(const char* path, const char* mode) {
  REAL(f, fopen_t, "fopen64");
  std::string p = remap(path);
  if (int e = access("fopen", p)) {
    errno = e;
    return nullptr;
  }
  return f(p.c_str(), mode);
}

typedef DIR* (*opendir_t)(const char*);
DIR* opendir(const char* path) {
  REAL(f, opendir_t, "opendir");
  std::string p = remap(path);
  if (int e = access("opendir", p)) {
    errno = e;
    return nullptr;
  }
  return f(p.c_str());
}

typedef int (*faccessat_t)(int, const char*, int, int);
int faccessat(int dirfd, const char* path, int mode, int flags) {
  REAL(f, faccessat_t, "faccessat");
  if (!active || bypassDepth) return f(dirfd, path, mode, flags);
  std::string full = path[0] == '/' ? remap(path) : fdPath(dirfd) + "/" + path;
  if (int e = access("faccessat", full)) {
    errno = e;
    return -1;
  }
  return path[0] == '/' ? f(dirfd, path, mode, flags) : noteBadFd("faccessat", dirfd, f(dirfd, path, mode, flags));
}

typedef int (*fstatat_t)(int, const char*, struct stat*, int);
int fstatat(int dirfd, const char* path, struct stat* st, int flags) {
  REAL(f, fstatat_t, "fstatat");
  if (!active || bypassDepth) return f(dirfd, path, st, flags);
  std::string full = path[0] == '/' ? remap(path) : fdPath(dirfd) + "/" + path;
  if (int e = access("fstatat", full)) {
    errno = e;
    return -1;
  }
  return path[0] == '/' ? f(dirfd, path, st, flags) : noteBadFd("fstatat", dirfd, f(dirfd, path, st, flags));
}
typedef int (*fstatat64_t)(int, const char*, struct stat64*, int);
int fstatat64(int dirfd, const char* path, struct stat64* st, int flags) {
  REAL(f, fstatat64_t, "fstatat64");
  if (!active || bypassDepth) return f(dirfd, path, st, flags);
  std::string full = path[0] == '/' ? remap(path) : fdPath(dirfd) + "/" + path;
  if (int e = access("fstatat", full)) {
    errno = e;
    return -1;
  }
  return f(dirfd, path, st, flags);
}

typedef struct dirent* (*readdir_t)(DIR*);
struct dirent* readdir(DIR* d) {
  REAL(f, readdir_t, "readdir");
  struct dirent* e = f(d);
  if (e && active && dtUnknown && !bypassDepth) e->d_type = DT_UNKNOWN;
  return e;
}
typedef struct dirent64* (*readdir64_t)(DIR*);
struct dirent64* readdir64(DIR* d) {
  REAL(f, readdir64_t, "readdir64");
  struct dirent64* e = f(d);
  if (e && active && dtUnknown && !bypassDepth) e->d_type = DT_UNKNOWN;
  return e;
}

// ---- effects ---------------------------------------------------------------------------
typedef int (*kill_t)(pid_t, int);
int kill(pid_t pid, int sig) {
  if (active) {  // NEVER forwarded
    if (killLatencySec > 0) clockNs += (int64_t)(killLatencySec * 1e9);
    int e = onKill ? onKill(pid, sig) : ESRCH;
    pushEffect(Effect{"kill", "", "", "", (long)pid, (long)sig, e ? -1 : 0, e});
    if (e) {
      errno = e;
      return -1;
    }
    return 0;
  }
  REAL(f, kill_t, "kill");
  return f(pid, sig);
}

int setxattr(const char* path, const char* name, const void* value, size_t size, int flags) {
  REAL(f, setxattr_t, "setxattr");
  if (!active || bypassDepth) return f(path, name, value, size, flags);
  std::string p(path);
  int e = access("setxattr", p);
  int ret = -1;
  if (e) {
    errno = e;
  } else {
    ret = f(path, name, value, size, flags);
    e = ret ? errno : 0;
  }
  pushEffect(Effect{"setxattr", p, name, std::string((const char*)value, size), 0, 0, ret, e});
  errno = e;
  return ret;
}
ssize_t getxattr(const char* path, const char* name, void* value, size_t size) {
  REAL(f, getxattr_t, "getxattr");
  if (!active || bypassDepth) return f(path, name, value, size);
  if (int e = access("getxattr", path)) {
    errno = e;
    return -1;
  }
  return f(path, name, value, size);
}
typedef ssize_t (*fgetxattr_t)(int, const char*, void*, size_t);
ssize_t fgetxattr(int fd, const char* name, void* value, size_t size) {
  REAL(f, fgetxattr_t, "fgetxattr");
  if (!active || bypassDepth) return f(fd, name, value, size);
  if (int e = access("fgetxattr", fdPath(fd))) {
    errno = e;
    return -1;
  }
  return noteBadFd("fgetxattr", fd, f(fd, name, value, size));
}

typedef int (*close_t)(int);
int close(int fd) {
  REAL(f, close_t, "close");
  if (!active || bypassDepth) return f(fd);
  return noteBadFd("close", fd, f(fd));
}

ssize_t write(int fd, const void* buf, size_t n) {
  if (!active || bypassDepth || fd <= 2) return rwrite(fd, buf, n);
  std::string p = fdPath(fd);
  if (!underRoot(p.c_str())) return rwrite(fd, buf, n);
  std::string data((const char*)buf, n);
  if (p == root + "/kmsg") {
    pushEffect(Effect{"kmsg", p, data, "", 0, 0, 0, 0});
    return n;
  }
  if (p.compare(0, rootLen + 4, root + "/cg/") == 0 || p.compare(0, rootLen + 6, root + "/proc/") == 0) {
    pushEffect(Effect{"ctlwrite", p, data, "", 0, 0, 0, 0});
    bypassDepth++;
    if (onCtlWrite)
      onCtlWrite(p, data);
    else
      rawWrite(p, data + "\n");  // kernfs semantics: a write replaces the value
    bypassDepth--;
    return n;
  }
  return rwrite(fd, buf, n);
}

typedef long (*syscall_t)(long, ...);
long syscall(long nr, ...) {
  REAL(f, syscall_t, "syscall");
  va_list ap;
  va_start(ap, nr);
  long a = va_arg(ap, long), b = va_arg(ap, long), c = va_arg(ap, long), d = va_arg(ap, long),
       e = va_arg(ap, long), g = va_arg(ap, long);
  va_end(ap);
  if (active && !bypassDepth && (nr == SYS_pidfd_open || nr == 448 /* process_mrelease */)) {
    long r = onSyscall ? onSyscall(nr, a, b) : -ESRCH;
    pushEffect(Effect{"syscall", "", nr == SYS_pidfd_open ? "pidfd_open" : "process_mrelease", "", a, b,
                             (int)(r < 0 ? -1 : r), (int)(r < 0 ? -r : 0)});
    if (r < 0) {
      errno = (int)-r;
      return -1;
    }
    if (nr == SYS_pidfd_open) return ropen("/dev/null", O_RDONLY);
    return r;
  }
  return f(nr, a, b, c, d, e, g);
}

// ---- time ------------------------------------------------------------------------------
typedef int (*clock_gettime_t)(clockid_t, struct timespec*);
int clock_gettime(clockid_t c, struct timespec* ts) {
  if (active && (c == CLOCK_MONOTONIC || c == CLOCK_MONOTONIC_RAW || c == CLOCK_MONOTONIC_COARSE ||
                 c == CLOCK_BOOTTIME)) {
    ts->tv_sec = clockNs / 1000000000LL;
    ts->tv_nsec = clockNs % 1000000000LL;
    return 0;
  }
  REAL(f, clock_gettime_t, "clock_gettime");
  return f(c, ts);
}
typedef int (*nanosleep_t)(const struct timespec*, struct timespec*);
int nanosleep(const struct timespec* req, struct timespec* rem) {
  if (active && !bypassDepth) {
    int64_t ns = req->tv_sec * 1000000000LL + req->tv_nsec;
    clockNs += ns;
    pushEffect(Effect{"sleep", "", "", "", (long)(ns / 1000000), 0, 0, 0});
    if (rem) rem->tv_sec = rem->tv_nsec = 0;
    return 0;
  }
  REAL(f, nanosleep_t, "nanosleep");
  return f(req, rem);
}
typedef int (*clock_nanosleep_t)(clockid_t, int, const struct timespec*, struct timespec*);
int clock_nanosleep(clockid_t c, int flags, const struct timespec* req, struct timespec* rem) {
  if (active && !bypassDepth) {
    int64_t ns = req->tv_sec * 1000000000LL + req->tv_nsec;
    if (flags & TIMER_ABSTIME) ns = ns > clockNs ? ns - clockNs : 0;
    clockNs += ns;
    pushEffect(Effect{"sleep", "", "", "", (long)(ns / 1000000), 0, 0, 0});
    if (rem) rem->tv_sec = rem->tv_nsec = 0;
    return 0;
  }
  REAL(f, clock_nanosleep_t, "clock_nanosleep");
  return f(c, flags, req, rem);
}

typedef int (*sigtimedwait_t)(const sigset_t*, siginfo_t*, const struct timespec*);
int sigtimedwait(const sigset_t* set, siginfo_t* info, const struct timespec* to) {
  if (active && onTick) {
    if (!onTick()) throw vb::Horizon{};
    errno = EAGAIN;
    return -1;
  }
  REAL(f, sigtimedwait_t, "sigtimedwait");
  return f(set, info, to);
}

// ---- exceptions: remember where the last throw came from --------------------------------
typedef void (*cxa_throw_t)(void*, void*, void (*)(void*));
void __cxa_throw(void* thrown, void* tinfo, void (*dest)(void*)) {
  REAL(f, cxa_throw_t, "__cxa_throw");
  if (active) vb::throwBtN = backtrace(vb::throwBt, 24);
  f(thrown, tinfo, dest);
  __builtin_unreachable();
}

}  // extern "C"
