#include "common/world.h"

#include <errno.h>
#include <sys/syscall.h>

#include <algorithm>
#include <cstdio>
#include <sstream>

#include "common/boundary.h"

namespace world {

namespace {
struct Cg {
  std::vector<std::string> extraProcLines;
  int pidsMode = 0;  // 0 live count, 1 pids.current always reads 0 (racy / stale view), 2 no pids.current (no pids controller)
};
std::map<std::string, Cg> g_cgs;  // existing cgroups by rel ("" = root); std::map => parents first
std::map<int, Proc> g_procs;
std::map<int, std::string> g_everListed;  // pid -> cgroup at listing time (for containment oracles)

std::string dirOf(const std::string& rel) { return rel.empty() ? cgfs() : cgfs() + "/" + rel; }

std::string psiLine(const char* kind, const Psi& p) {
  char b[160];
  snprintf(b, sizeof b, "%s avg10=%.2f avg60=%.2f avg300=%.2f total=%lld\n", kind, p.a10, p.a60, p.a300, p.total);
  return b;
}

bool isUnder(const std::string& rel, const std::string& anc) {
  if (anc.empty()) return true;
  return rel == anc || (rel.size() > anc.size() && rel.compare(0, anc.size(), anc) == 0 && rel[anc.size()] == '/');
}

const char* kDefaultMemStat =
    "anon 0\nfile 0\nkernel_stack 0\nshmem 0\ninactive_anon 0\nactive_anon 0\ninactive_file 0\nactive_file 0\n"
    "pgfault 0\npgscan 0\npgsteal 0\n";
}  // namespace

std::string cgfs() { return vb::root + "/cg"; }
std::string procRoot() { return vb::root + "/proc"; }
std::string kmsgPath() { return vb::root + "/kmsg"; }

static void writeDefaults(const std::string& rel) {
  std::string d = dirOf(rel);
  vb::rawWrite(d + "/cgroup.controllers", "cpu io memory pids\n");
  vb::rawWrite(d + "/cgroup.procs", "");
  vb::rawWrite(d + "/cgroup.events", "populated 0\nfrozen 0\n");
  vb::rawWrite(d + "/cgroup.stat", "nr_descendants 0\nnr_dying_descendants 0\n");
  vb::rawWrite(d + "/cgroup.kill", "");
  vb::rawWrite(d + "/cgroup.freeze", "0\n");
  vb::rawWrite(d + "/memory.current", "0\n");
  vb::rawWrite(d + "/memory.min", "0\n");
  vb::rawWrite(d + "/memory.low", "0\n");
  vb::rawWrite(d + "/memory.high", "max\n");
  vb::rawWrite(d + "/memory.max", "max\n");
  vb::rawWrite(d + "/memory.stat", kDefaultMemStat);
  vb::rawWrite(d + "/memory.pressure", psiLine("some", {}) + psiLine("full", {}));
  vb::rawWrite(d + "/io.pressure", psiLine("some", {}) + psiLine("full", {}));
  vb::rawWrite(d + "/memory.swap.current", "0\n");
  vb::rawWrite(d + "/memory.swap.max", "max\n");
  vb::rawWrite(d + "/memory.oom.group", "0\n");
  vb::rawWrite(d + "/io.stat", "");
  vb::rawWrite(d + "/pids.current", "0\n");
}

void reset() {
  for (auto& n : vb::rawListDir(vb::root)) vb::rawRmrf(vb::root + "/" + n);
  g_cgs.clear();
  g_procs.clear();
  g_everListed.clear();
  vb::rawMkdirs(cgfs());
  vb::rawMkdirs(procRoot() + "/sys/vm");
  vb::rawMkdirs(procRoot() + "/pressure");
  vb::rawMkdirs(vb::root + "/dev");
  g_cgs[""] = Cg{};
  writeDefaults("");
  setMeminfo(16777216, 8388608, 2097152, 2097152);
  setSwaps(2097152, 0);
  setProc("vmstat", "pgscan_kswapd 0\npswpin 0\npswpout 0\n");
  setProc("sys/vm/swappiness", "60\n");
  setProc("pressure/memory", psiLine("some", {}) + psiLine("full", {}));
  setProc("pressure/io", psiLine("some", {}) + psiLine("full", {}));
  vb::rawWrite(kmsgPath(), "");
}

void mkcg(const std::string& rel) {
  if (rel.empty() || g_cgs.count(rel)) return;
  auto slash = rel.rfind('/');
  if (slash != std::string::npos) mkcg(rel.substr(0, slash));
  vb::rawMkdirs(dirOf(rel));
  g_cgs[rel] = Cg{};
  writeDefaults(rel);
}

void rmcg(const std::string& rel) {
  std::vector<std::string> dead;
  for (auto& kv : g_cgs)
    if (isUnder(kv.first, rel) && !(rel.empty())) dead.push_back(kv.first);
  for (auto& d : dead) g_cgs.erase(d);
  for (auto it = g_procs.begin(); it != g_procs.end();) it = isUnder(it->second.cg, rel) ? g_procs.erase(it) : std::next(it);
  vb::rawRmrf(dirOf(rel));
  syncProcs();
}

bool exists(const std::string& rel) { return g_cgs.count(rel) > 0; }

void setFile(const std::string& rel, const std::string& file, const std::string& content) {
  vb::rawWrite(dirOf(rel) + "/" + file, content);
}
void rmFile(const std::string& rel, const std::string& file) { vb::rawRmrf(dirOf(rel) + "/" + file); }
std::string getFile(const std::string& rel, const std::string& file) {
  std::string s;
  vb::rawRead(dirOf(rel) + "/" + file, &s);
  return s;
}
void setXattr(const std::string& rel, const std::string& name, const std::string& val) {
  vb::rawSetXattr(dirOf(rel), name, val);
}
void rmXattr(const std::string& rel, const std::string& name) { vb::rawRmXattr(dirOf(rel), name); }
std::string getXattr(const std::string& rel, const std::string& name) {
  std::string s;
  if (!vb::rawGetXattr(dirOf(rel), name, &s)) return "";
  return s;
}
std::vector<std::string> allCgroups() {
  std::vector<std::string> r;
  for (auto& kv : g_cgs) r.push_back(kv.first);
  return r;
}

void setMem(const std::string& rel, long long current) { setFile(rel, "memory.current", std::to_string(current) + "\n"); }
void setPsi(const std::string& rel, const std::string& res, const Psi& some, const Psi& full) {
  setFile(rel, res + ".pressure", psiLine("some", some) + psiLine("full", full));
}
void setMemStat(const std::string& rel, const std::map<std::string, long long>& kv) {
  std::string s;
  for (auto& e : kv) s += e.first + " " + std::to_string(e.second) + "\n";
  setFile(rel, "memory.stat", s);
}
void setMemStatKey(const std::string& rel, const std::string& key, long long v) {
  std::string cur = getFile(rel, "memory.stat"), out;
  std::stringstream ss(cur);
  std::string line;
  bool found = false;
  while (std::getline(ss, line)) {
    if (line.compare(0, key.size() + 1, key + " ") == 0) {
      out += key + " " + std::to_string(v) + "\n";
      found = true;
    } else {
      out += line + "\n";
    }
  }
  if (!found) out += key + " " + std::to_string(v) + "\n";
  setFile(rel, "memory.stat", out);
}

void addProc(int pid, const std::string& rel, int outcome, int linger) {
  g_procs[pid] = Proc{rel, outcome, linger};
  g_everListed[pid] = rel;
}
void rawProcsLine(const std::string& rel, const std::string& line) { g_cgs[rel].extraProcLines.push_back(line); }
void setPidsMode(const std::string& rel, int mode) { g_cgs[rel].pidsMode = mode; }

std::vector<int> pidsIn(const std::string& rel, bool recursive) {
  std::vector<int> r;
  for (auto& kv : g_procs)
    if (kv.second.cg == rel || (recursive && isUnder(kv.second.cg, rel))) r.push_back(kv.first);
  return r;
}
std::string cgroupOf(int pid) {
  auto it = g_everListed.find(pid);
  return it == g_everListed.end() ? "" : it->second;
}
const std::map<int, Proc>& procs() { return g_procs; }

void syncProcs() {
  for (auto& kv : g_cgs) {
    const std::string& rel = kv.first;
    std::string procs;
    for (auto& l : kv.second.extraProcLines) procs += l + "\n";
    int own = 0, sub = 0;
    for (auto& p : g_procs) {
      if (p.second.cg == rel) {
        procs += std::to_string(p.first) + "\n";
        own++;
      }
      if (isUnder(p.second.cg, rel)) sub++;
    }
    (void)own;
    std::string d = dirOf(rel);
    vb::rawWrite(d + "/cgroup.procs", procs);
    // keep "frozen" as is
    std::string ev = getFile(rel, "cgroup.events");
    std::string frozen = ev.find("frozen 1") != std::string::npos ? "1" : "0";
    if (ev.find("populated") != std::string::npos || ev.empty())
      vb::rawWrite(d + "/cgroup.events", std::string("populated ") + (sub ? "1" : "0") + "\nfrozen " + frozen + "\n");
    if (kv.second.pidsMode == 2)
      vb::rawRmrf(d + "/pids.current");
    else if (vb::rawExists(d + "/pids.current"))
      vb::rawWrite(d + "/pids.current", std::to_string(kv.second.pidsMode == 1 ? 0 : sub) + "\n");
  }
}

void setProc(const std::string& name, const std::string& content) {
  auto slash = name.rfind('/');
  if (slash != std::string::npos) vb::rawMkdirs(procRoot() + "/" + name.substr(0, slash));
  vb::rawWrite(procRoot() + "/" + name, content);
}
void rmProc(const std::string& name) { vb::rawRmrf(procRoot() + "/" + name); }
void setMeminfo(long long memTotalKb, long long memFreeKb, long long swapTotalKb, long long swapFreeKb) {
  char b[512];
  snprintf(b, sizeof b,
           "MemTotal:       %lld kB\nMemFree:        %lld kB\nMemAvailable:   %lld kB\nSwapTotal:      %lld kB\n"
           "SwapFree:       %lld kB\n",
           memTotalKb, memFreeKb, memFreeKb, swapTotalKb, swapFreeKb);
  setProc("meminfo", b);
}
void setSwaps(long long totalKb, long long usedKb) {
  std::string s = "Filename\t\t\t\tType\t\tSize\t\tUsed\t\tPriority\n";
  if (totalKb >= 0)
    s += "/dev/sda2                               partition\t" + std::to_string(totalKb) + "\t\t" +
         std::to_string(usedKb) + "\t\t-2\n";
  setProc("swaps", s);
}

std::string relOf(const std::string& absPath) {
  std::string pre = cgfs();
  if (absPath.compare(0, pre.size(), pre) != 0) return "?";
  std::string rest = absPath.substr(pre.size());
  if (!rest.empty() && rest[0] == '/') rest.erase(0, 1);
  // longest existing-or-not directory prefix: strip a trailing control-file component if it has a '.'
  return rest;
}

static int killOne(int pid) {
  auto it = g_procs.find(pid);
  if (it == g_procs.end()) return ESRCH;
  if (it->second.outcome != K_OK) return it->second.outcome;
  if (it->second.linger > 0) {
    it->second.linger--;
    return 0;
  }
  g_procs.erase(it);
  return 0;
}

std::function<void(int pid, int err)> afterKill;

void installHooks() {
  vb::onKill = [](int pid, int sig) -> int {
    if (pid <= 0) return 0;  // kill(0,..)/kill(-1,..) "succeed": the monitor flags them; nothing in the world dies
    if (sig == 0) return g_procs.count(pid) ? 0 : ESRCH;
    int e = killOne(pid);
    if (e == 0) syncProcs();
    if (afterKill) afterKill(pid, e);
    return e;
  };
  vb::onCtlWrite = [](const std::string& path, const std::string& data) {
    auto slash = path.rfind('/');
    std::string file = path.substr(slash + 1), dir = path.substr(0, slash);
    std::string rel = relOf(dir);
    if (file == "cgroup.kill") {
      if (data == "1" || data == "1\n") {
        std::vector<int> victims = pidsIn(rel, true);
        for (int p : victims) killOne(p);
        syncProcs();
      }
      return;
    }
    if (file == "memory.reclaim") return;  // write-only trigger
    if (file == "cgroup.freeze") {
      vb::rawWrite(path, data + "\n");
      return;
    }
    if (file == "memory.high.tmp") {  // "<bytes> <usec>"; reading back gives "<bytes|max> <remaining usec>"
      std::string v = data.substr(0, data.find(' '));
      if (v == std::to_string(9223372036854775807LL)) v = "max";
      vb::rawWrite(path, v + " 0\n");
      return;
    }
    std::string v = data;
    while (!v.empty() && v.back() == '\n') v.pop_back();
    if (v == std::to_string(9223372036854775807LL) && file.rfind("memory.", 0) == 0) v = "max";
    vb::rawWrite(path, v + "\n");
  };
  vb::onSyscall = [](long nr, long a, long) -> long {
    if (nr == SYS_pidfd_open) return g_procs.count((int)a) ? 0 : -ESRCH;
    return 0;  // process_mrelease
  };
}

}  // namespace world
