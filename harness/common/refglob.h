// Independent reference for cgroup path canonicalisation and component-wise shell-glob matching
// (`*`, `?`, leading-dot rule).  Deliberately shares no code with oomd or glob(3).
#pragma once
#include <string>
#include <vector>

namespace rg {

inline std::vector<std::string> comps(const std::string& p) {
  std::vector<std::string> r;
  std::string cur;
  for (char c : p) {
    if (c == '/') {
      if (!cur.empty()) r.push_back(cur);
      cur.clear();
    } else {
      cur += c;
    }
  }
  if (!cur.empty()) r.push_back(cur);
  return r;
}

inline std::string join(const std::vector<std::string>& c) {
  std::string s;
  for (size_t i = 0; i < c.size(); i++) s += (i ? "/" : "") + c[i];
  return s;
}

// does name match one glob component? (no '/', supports * and ?; a leading '.' must be matched literally)
inline bool compMatch(const std::string& pat, const std::string& name) {
  if (!name.empty() && name[0] == '.' && (pat.empty() || pat[0] != '.')) return false;
  // classic iterative wildcard match
  size_t p = 0, n = 0, star = std::string::npos, mark = 0;
  while (n < name.size()) {
    if (p < pat.size() && (pat[p] == '?' || pat[p] == name[n])) {
      p++;
      n++;
    } else if (p < pat.size() && pat[p] == '*') {
      star = p++;
      mark = n;
    } else if (star != std::string::npos) {
      p = star + 1;
      n = ++mark;
    } else {
      return false;
    }
  }
  while (p < pat.size() && pat[p] == '*') p++;
  return p == pat.size();
}

inline bool hasWild(const std::string& s) { return s.find_first_of("*?") != std::string::npos; }

// path (relative, canonical or not) matches pattern component-wise
inline bool pathMatch(const std::string& pattern, const std::string& path) {
  auto pc = comps(pattern), xc = comps(path);
  if (pc.size() != xc.size()) return false;
  for (size_t i = 0; i < pc.size(); i++) {
    if (hasWild(pc[i])) {
      if (!compMatch(pc[i], xc[i])) return false;
    } else if (pc[i] != xc[i]) {
      return false;
    }
  }
  return true;
}

// path is matched by pattern or descends from a match
inline bool matchOrDescends(const std::string& pattern, const std::string& path) {
  auto pc = comps(pattern), xc = comps(path);
  if (xc.size() < pc.size()) return false;
  std::vector<std::string> head(xc.begin(), xc.begin() + pc.size());
  return pathMatch(pattern, join(head));
}

inline std::vector<std::string> splitComma(const std::string& s) {
  std::vector<std::string> r;
  std::string cur;
  for (char c : s) {
    if (c == ',') {
      if (!cur.empty()) r.push_back(cur);
      cur.clear();
    } else {
      cur += c;
    }
  }
  if (!cur.empty()) r.push_back(cur);
  return r;
}

}  // namespace rg
