// Recorder for the sd-bus calls BaseSystemdPlugin makes (never reaches a real bus).
#include <systemd/sd-bus.h>

#include <cstdarg>
#include <string>

#include "common/boundary.h"

namespace sdstub {
int openResult = 0;
int callResult = 0;
}  // namespace sdstub

extern "C" {
int sd_bus_open_system(sd_bus** ret) {
  vb::effects.push_back(vb::Effect{"sdbus", "", "open_system", "", 0, 0, sdstub::openResult, 0});
  *ret = (sd_bus*)0x1;
  return sdstub::openResult;
}
int sd_bus_call_method(sd_bus*, const char* destination, const char* path, const char* interface, const char* member,
                       sd_bus_error*, sd_bus_message** reply, const char* types, ...) {
  va_list ap;
  va_start(ap, types);
  std::string a1 = va_arg(ap, const char*), a2 = va_arg(ap, const char*);
  va_end(ap);
  (void)destination;
  (void)path;
  (void)interface;
  vb::effects.push_back(vb::Effect{"sdbus", "", std::string("call ") + member, a1 + " " + a2, 0, 0, sdstub::callResult, 0});
  *reply = (sd_bus_message*)0x2;
  return sdstub::callResult;
}
int sd_bus_message_read(sd_bus_message*, const char* types, ...) {
  va_list ap;
  va_start(ap, types);
  const char** out = va_arg(ap, const char**);
  va_end(ap);
  if (out) *out = "/org/freedesktop/systemd1/job/1";
  return 1;
}
void sd_bus_error_free(sd_bus_error*) {}
sd_bus_message* sd_bus_message_unref(sd_bus_message*) { return nullptr; }
void sd_bus_close(sd_bus*) {}
sd_bus* sd_bus_unref(sd_bus*) { return nullptr; }
}
