// Simulated cgroup2 + procfs world, materialised as real files on the private tmpfs so that
// oomd's own openat/getline/glob/ifstream paths run unmodified.  See DESIGN.md 2.3.
#pragma once
#include <map>
#include <set>
#include <functional>
#include <string>
#include <vector>

namespace world {

enum KillOutcome { K_OK = 0, K_ESRCH = 3, K_EPERM = 1 };

struct Proc {
  std::string cg;
  int outcome = K_OK;  // errno returned by kill(), 0 = dies
  int linger = 0;      // after a successful kill the pid stays listed for this many more kills
};

struct Psi {
  double a10 = 0, a60 = 0, a300 = 0;
  long long total = 0;
};

std::string cgfs();      // <root>/cg
std::string procRoot();  // <root>/proc
std::string kmsgPath();  // <root>/kmsg

void reset();  // wipe the scratch tree, recreate the default root cgroup and /proc files, clear processes

// cgroups (rel = path relative to the cgroup fs root, "" = root)
void mkcg(const std::string& rel);  // creates parents too, with default control files
void rmcg(const std::string& rel);  // removes the subtree (processes in it vanish)
bool exists(const std::string& rel);
void setFile(const std::string& rel, const std::string& file, const std::string& content);
void rmFile(const std::string& rel, const std::string& file);
std::string getFile(const std::string& rel, const std::string& file);
void setXattr(const std::string& rel, const std::string& name, const std::string& val);
void rmXattr(const std::string& rel, const std::string& name);
std::string getXattr(const std::string& rel, const std::string& name);  // "" if absent
std::vector<std::string> allCgroups();  // every existing cgroup (rel), parents before children

// convenience setters in the kernel's grammar
void setMem(const std::string& rel, long long current);
void setPsi(const std::string& rel, const std::string& res, const Psi& some, const Psi& full);  // res: memory|io
void setMemStat(const std::string& rel, const std::map<std::string, long long>& kv);
void setMemStatKey(const std::string& rel, const std::string& key, long long v);

// processes
void addProc(int pid, const std::string& rel, int outcome = K_OK, int linger = 0);
void rawProcsLine(const std::string& rel, const std::string& line);
void setPidsMode(const std::string& rel, int mode);  // 0 live, 1 pids.current reads 0, 2 file absent (applied by syncProcs)  // extra literal line in cgroup.procs (e.g. "0")
std::vector<int> pidsIn(const std::string& rel, bool recursive);
std::string cgroupOf(int pid);  // cgroup a pid was in when it was (last) listed; "" if never known
const std::map<int, Proc>& procs();
void syncProcs();  // rewrite cgroup.procs / cgroup.events / pids.current of every cgroup

// /proc
void setProc(const std::string& name, const std::string& content);  // e.g. "meminfo", "sys/vm/swappiness"
void rmProc(const std::string& name);
void setMeminfo(long long memTotalKb, long long memFreeKb, long long swapTotalKb, long long swapFreeKb);
void setSwaps(long long totalKb, long long usedKb);  // totalKb<0: header only

// install vb::onKill / vb::onCtlWrite / vb::onSyscall with kernel-like semantics
void installHooks();
// environment reaction to a kill(2) call (e.g. a descendant cgroup disappears as its processes die); reset by killsim per scenario
extern std::function<void(int pid, int err)> afterKill;

std::string relOf(const std::string& absPath);  // "<root>/cg/a/b/file" -> "a/b" (dir part), "?" if outside

}  // namespace world
