// Reference grammar for size / percent / number strings (DESIGN.md A.7), evaluated in exact
// integer arithmetic on __int128.  Three-valued verdicts: MUST_ACCEPT(range) / MUST_REJECT /
// DONT_CARE where the documentation is silent.  Shares no code with oomd.
#pragma once
#include <cctype>
#include <cstdint>
#include <string>
#include <vector>

namespace rn {

typedef __int128 i128;
enum Kind { ACCEPT, REJECT, DONTCARE };
struct Verdict {
  Kind kind = REJECT;
  i128 lo = 0, hi = 0;      // admissible result range (inclusive) when ACCEPT
  const char* why = "";     // reason for REJECT / DONTCARE
};

static const i128 kI63 = ((i128)1) << 63;

// decimal number token: digits [. digits] [e [+-] digits]; returns false if not of that form.
// value = mant * 10^exp10 (mant may carry up to ~30 digits; we cap and flag "huge")
struct Dec {
  i128 mant = 0;
  long exp10 = 0;
  bool huge = false;   // exponent so large that the value is certainly >= 2^63 (if mant != 0)
  bool tiny = false;   // exponent so small that the value is certainly < 1
  bool plainInt = true;  // digits only
  bool edgeSpelling = false;  // "1." or ".5": accepted by C's strtod, not clearly by the docs
};
inline bool parseDec(const std::string& s, size_t& i, Dec& d) {
  size_t st = i;
  int nd = 0, nf = 0;
  while (i < s.size() && isdigit((unsigned char)s[i])) {
    if (d.mant < (((i128)1) << 100)) d.mant = d.mant * 10 + (s[i] - '0');
    i++;
    nd++;
  }
  if (i < s.size() && s[i] == '.') {
    d.plainInt = false;
    i++;
    while (i < s.size() && isdigit((unsigned char)s[i])) {
      if (d.mant < (((i128)1) << 100)) {
        d.mant = d.mant * 10 + (s[i] - '0');
        d.exp10--;
      }
      i++;
      nf++;
    }
    if (nd == 0 || nf == 0) d.edgeSpelling = true;
  }
  if (nd + nf == 0) {
    i = st;
    return false;
  }
  if (i < s.size() && (s[i] == 'e' || s[i] == 'E')) {
    size_t save = i;
    i++;
    bool neg = false;
    if (i < s.size() && (s[i] == '+' || s[i] == '-')) neg = s[i++] == '-';
    int ne = 0;
    long e = 0;
    while (i < s.size() && isdigit((unsigned char)s[i])) {
      if (e < 100000) e = e * 10 + (s[i] - '0');
      i++;
      ne++;
    }
    if (ne == 0) {
      i = save;  // "1e" : the 'e' is not part of the number
    } else {
      d.plainInt = false;
      d.exp10 += neg ? -e : e;
    }
  }
  if (d.exp10 > 40) d.huge = true;
  if (d.exp10 < -60) d.tiny = true;
  return true;
}

// floor and exactness of mant * 10^exp10 * 2^shift ; returns false on overflow (>= 2^100)
inline bool evalScaled(const Dec& d, int shift, i128& fl, bool& exact) {
  if (d.mant == 0) {
    fl = 0;
    exact = true;
    return true;
  }
  if (d.huge) return false;
  if (d.tiny) {
    fl = 0;
    exact = false;
    return true;
  }
  i128 num = d.mant;
  for (int k = 0; k < shift; k++) {
    num *= 2;
    if (num >= (((i128)1) << 120)) return false;
  }
  if (d.exp10 >= 0) {
    for (long k = 0; k < d.exp10; k++) {
      num *= 10;
      if (num >= (((i128)1) << 120)) return false;
    }
    fl = num;
    exact = true;
    return true;
  }
  i128 den = 1;
  for (long k = 0; k < -d.exp10; k++) {
    den *= 10;
    if (den >= (((i128)1) << 120)) {  // denominator astronomically large: value < 1
      fl = 0;
      exact = false;
      return true;
    }
  }
  fl = num / den;
  exact = (num % den) == 0;
  return true;
}

inline bool hasSpaceInsideToken(const std::string& s) {
  // a blank between two characters that both belong to a number token is ambiguous ("1 2", "1. 5")
  auto numch = [](char c) { return isdigit((unsigned char)c) || c == '.' || c == 'e' || c == 'E' || c == '+' || c == '-'; };
  for (size_t i = 0; i < s.size(); i++) {
    if (s[i] != ' ') continue;
    size_t l = i, r = i;
    while (l > 0 && s[l - 1] == ' ') l--;
    while (r + 1 < s.size() && s[r + 1] == ' ') r++;
    if (l > 0 && r + 1 < s.size() && numch(s[l - 1]) && numch(s[r + 1])) return true;
  }
  return false;
}

// size := comp+ ; comp := number unit? ; unit in kmgt (case-insensitive)
inline Verdict refSize(const std::string& in, bool forBareRule = false) {
  Verdict v;
  std::string s;
  for (char c : in) s += (char)tolower((unsigned char)c);
  for (char c : s)
    if (isspace((unsigned char)c) && c != ' ') return {DONTCARE, 0, 0, "non-blank whitespace"};
  if (hasSpaceInsideToken(s)) return {DONTCARE, 0, 0, "blank inside a number"};
  std::string t;
  for (char c : s)
    if (c != ' ') t += c;
  if (t.empty()) return {REJECT, 0, 0, "empty"};
  // signs are not mentioned by the docs at all: a sign anywhere outside an exponent leaves the verdict open
  for (size_t k = 0; k < t.size(); k++)
    if ((t[k] == '+' || t[k] == '-') && !(k > 0 && t[k - 1] == 'e' && k + 1 < t.size() && isdigit((unsigned char)t[k + 1]) &&
                                           k >= 2 && (isdigit((unsigned char)t[k - 2]) || t[k - 2] == '.')))
      return {DONTCARE, 0, 0, "sign"};
  if (t.find("0x") != std::string::npos) return {DONTCARE, 0, 0, "hex spelling"};
  if (t.find("inf") != std::string::npos || t.find("nan") != std::string::npos) return {REJECT, 0, 0, "non-finite"};
  size_t i = 0;
  i128 lo = 0, hi = 0;
  int ncomp = 0;
  bool anyUnit = false, anyEdge = false, anyNonPlain = false;
  while (i < t.size()) {
    Dec d;
    if (!parseDec(t, i, d)) return {REJECT, 0, 0, "garbage or unit without number"};
    int shift = 0;
    if (i < t.size() && (t[i] == 'k' || t[i] == 'm' || t[i] == 'g' || t[i] == 't')) {
      shift = t[i] == 'k' ? 10 : t[i] == 'm' ? 20 : t[i] == 'g' ? 30 : 40;
      i++;
      anyUnit = true;
    } else if (i < t.size() && !isdigit((unsigned char)t[i]) && t[i] != '.') {
      return {REJECT, 0, 0, "garbage"};
    } else if (i < t.size()) {
      // two unit-less numbers glued together ("1.5.5"): garbage
      return {REJECT, 0, 0, "garbage"};
    }
    anyEdge |= d.edgeSpelling;
    anyNonPlain |= !d.plainInt;
    i128 fl;
    bool exact;
    if (!evalScaled(d, shift, fl, exact)) return {REJECT, 0, 0, "overflow"};
    if (fl >= kI63) return {REJECT, 0, 0, "overflow"};
    lo += exact ? fl : fl;       // may round down per component
    hi += exact ? fl : fl + 1;
    ncomp++;
  }
  if (anyEdge) return {DONTCARE, 0, 0, "edge float spelling (1. / .5)"};
  if (hi >= kI63) return {lo >= kI63 ? REJECT : DONTCARE, 0, 0, "overflow"};
  if (forBareRule && !anyUnit) {
    // parseSizeOrPercent: "a bare number is megabytes" - integers are handled by the caller; a unit-less fraction or
    // exponent ("1.5", "1e3") is not clearly bytes or megabytes
    if (anyNonPlain) return {DONTCARE, 0, 0, "unit-less non-integer"};
  }
  v.kind = ACCEPT;
  v.lo = lo;
  v.hi = hi;
  return v;
}

inline bool allDigits(const std::string& s) {
  if (s.empty()) return false;
  for (char c : s)
    if (!isdigit((unsigned char)c)) return false;
  return true;
}

// N% | bare integer (megabytes) | size
inline Verdict refSizeOrPercent(const std::string& in, i128 total) {
  if (in.find(' ') != std::string::npos) {
    std::string noBlank;
    for (char c : in)
      if (c != ' ') noBlank += c;
    // blanks around a percentage or a bare (megabyte) number: the docs do not say
    if (in.find('%') != std::string::npos || allDigits(noBlank) ||
        (!noBlank.empty() && (noBlank[0] == '-' || noBlank[0] == '+') && allDigits(noBlank.substr(1))))
      return {DONTCARE, 0, 0, "blank in percent / bare number"};
  }
  if (!in.empty() && in.back() == '%') {
    std::string n = in.substr(0, in.size() - 1);
    if (n.empty()) return {REJECT, 0, 0, "percent without number"};
    if (n[0] == '+' || n[0] == '-') return {DONTCARE, 0, 0, "signed percent"};
    if (!allDigits(n)) {
      size_t i = 0;
      Dec d;
      std::string ln;
      for (char c : n) ln += (char)tolower((unsigned char)c);
      if (parseDec(ln, i, d) && i == ln.size()) return {DONTCARE, 0, 0, "fractional percent"};
      return {REJECT, 0, 0, "garbage in percent"};
    }
    if (n.size() > 6) return {REJECT, 0, 0, "percent out of range"};
    long N = atol(n.c_str());
    if (N > 100) return {REJECT, 0, 0, "percent out of range"};
    Verdict v;
    v.kind = ACCEPT;
    v.lo = v.hi = total * N / 100;
    return v;
  }
  if (allDigits(in)) {
    i128 n = 0;
    for (char c : in) {
      n = n * 10 + (c - '0');
      if (n >= kI63) return {REJECT, 0, 0, "overflow"};
    }
    n <<= 20;
    if (n >= kI63) return {REJECT, 0, 0, "overflow"};
    Verdict v;
    v.kind = ACCEPT;
    v.lo = v.hi = n;
    return v;
  }
  if (!in.empty() && (in[0] == '-' || in[0] == '+') && allDigits(in.substr(1))) return {DONTCARE, 0, 0, "signed bare number"};
  return refSize(in, true);
}

// integer argument: [-]digits, within [min,max]
inline Verdict refInt(const std::string& in, i128 min, i128 max, bool allowNegative) {
  if (in.empty()) return {REJECT, 0, 0, "empty"};
  for (char c : in)
    if (isspace((unsigned char)c)) return {DONTCARE, 0, 0, "whitespace"};
  size_t i = 0;
  bool neg = false;
  if (in[0] == '+') return {DONTCARE, 0, 0, "plus sign"};
  if (in[0] == '-') {
    neg = true;
    i = 1;
  }
  std::string digits = in.substr(i);
  if (!allDigits(digits)) {
    // distinguish the classes for signatures
    std::string l;
    for (char c : digits) l += (char)tolower((unsigned char)c);
    size_t k = 0;
    Dec d;
    if (l.find("0x") == 0) return {DONTCARE, 0, 0, "hex spelling"};
    if (parseDec(l, k, d) && k == l.size()) return {REJECT, 0, 0, "fraction-or-exponent-for-integer"};
    if (k > 0) return {REJECT, 0, 0, "trailing-garbage"};
    return {REJECT, 0, 0, "garbage"};
  }
  i128 n = 0;
  for (char c : digits) {
    n = n * 10 + (c - '0');
    if (n > (((i128)1) << 70)) break;
  }
  if (neg) n = -n;
  if (neg && !allowNegative && n != 0) return {REJECT, 0, 0, "negative"};
  if (neg && n == 0) return {DONTCARE, 0, 0, "minus zero"};
  if (n < min || n > max) return {REJECT, 0, 0, "out-of-range"};
  Verdict v;
  v.kind = ACCEPT;
  v.lo = v.hi = n;
  return v;
}

// floating argument: [-]decimal, finite. value returned as (num/den) via long double approximation for comparison
struct FVerdict {
  Kind kind = REJECT;
  long double value = 0;
  const char* why = "";
};
inline FVerdict refFloat(const std::string& in) {
  if (in.empty()) return {REJECT, 0, "empty"};
  for (char c : in)
    if (isspace((unsigned char)c)) return {DONTCARE, 0, "whitespace"};
  std::string l;
  for (char c : in) l += (char)tolower((unsigned char)c);
  size_t i = 0;
  bool neg = false;
  if (l[0] == '+') return {DONTCARE, 0, "plus sign"};
  if (l[0] == '-') {
    neg = true;
    i = 1;
  }
  if (l.find("inf", i) == i || l.find("nan", i) == i) return {REJECT, 0, "non-finite"};
  if (l.find("0x", i) == i) return {DONTCARE, 0, "hex spelling"};
  Dec d;
  size_t st = i;
  if (!parseDec(l, i, d)) return {REJECT, 0, "garbage"};
  if (i != l.size()) return {REJECT, 0, i > st ? "trailing-garbage" : "garbage"};
  if (d.edgeSpelling) return {DONTCARE, 0, "edge float spelling"};
  if (d.huge || d.tiny || d.exp10 > 30 || d.exp10 < -30) return {DONTCARE, 0, "extreme exponent"};
  long double v = (long double)d.mant;
  for (long k = 0; k < d.exp10; k++) v *= 10;
  for (long k = 0; k < -d.exp10; k++) v /= 10;
  return {ACCEPT, neg ? -v : v, ""};
}

}  // namespace rn
