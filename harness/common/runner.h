// Forked-worker scenario runner shared by all sequential (E1) drivers.  A driver exposes a
// finite, indexable scenario space; the runner enumerates ALL indices (never samples),
// isolates crashes (ASan/UBSan/abort/uncaught exception) per scenario, replays every
// violation twice before reporting it, and writes the raw result for ./check.
#pragma once
#include <json/json.h>

#include <cstdint>
#include <map>
#include <string>
#include <vector>

namespace vr {

uint64_t fnv(const std::string& s, uint64_t h = 1469598103934665603ULL);

struct Violation {
  std::string sig;
  std::string detail;
};

struct Result {
  uint64_t evals = 1;                 // executions this scenario stands for
  std::vector<uint64_t> obs;          // hashes of distinct NON-TRIVIAL observations made
  std::vector<Violation> violations;
  std::map<std::string, long long> counters;  // summed over scenarios
  void violate(const std::string& sig, const std::string& detail) { violations.push_back({sig, detail}); }
  void nontrivial(const std::string& observation) { obs.push_back(fnv(observation)); }
};

struct Driver {
  virtual ~Driver() {}
  virtual std::string id() = 0;
  // build the scenario table for this tier. seed only rotates enumeration order.
  virtual void configure(const std::string& tier, uint64_t seed) = 0;
  virtual size_t count() = 0;
  virtual std::string describe(size_t i) = 0;  // human-readable scenario (evidence samples, replay)
  virtual std::string klass(size_t i) { return ""; }  // scenario class for crash signatures
  virtual void run(size_t i, Result& r, bool verbose) = 0;
  virtual void workerInit() {}
  virtual size_t chunk() { return 1; }          // indices handed to a worker at once
  virtual double deadlineSec(const std::string& tier) { return tier == "quick" ? 600 : 3600; }
  virtual double scenarioTimeoutSec() { return 60; }
  // E2 drivers (real threads, real kernel objects): a mismatch of the determinism double-run is settled by a third run
  virtual bool tieBreakNondeterminism() { return false; }
  // static description of the explored space
  virtual std::string rule() = 0;
  virtual Json::Value bounds() { return Json::Value(Json::objectValue); }
  virtual std::vector<std::string> assumptions() { return {}; }
  // model_checking-level drivers report states/transitions through counters "states"/"transitions"
};

int main(int argc, char** argv, Driver& d);

// a short note about what the worker is doing right now (e.g. the input under test); shown in crash reports
void note(const std::string& s);
// tells the watchdog that the current scenario is alive (long explorations call this once per execution); the scenario
// time limit counts from the last call
void progress();

// helper: mixed-radix decoding of a scenario index
struct Mixed {
  std::vector<size_t> dims;
  size_t total() const {
    size_t t = 1;
    for (auto d : dims) t *= d;
    return t;
  }
  std::vector<size_t> decode(size_t i) const {
    std::vector<size_t> r(dims.size());
    for (size_t k = dims.size(); k-- > 0;) {
      r[k] = i % dims[k];
      i /= dims[k];
    }
    return r;
  }
};

}  // namespace vr
