// Builds the real Oomd object from a JSON configuration and drives the UNMODIFIED Oomd::run
// through the interposed sigtimedwait (DESIGN.md 2.2).  Also hosts the scripted plugin /
// scripted prekill hook that are registered in oomd's real registries.
#pragma once
#include <functional>
#include <memory>
#include <string>
#include <unordered_map>
#include <vector>

#include "oomd/Oomd.h"
#include "oomd/engine/BasePlugin.h"
#include "oomd/engine/PrekillHook.h"

namespace sim {

void processInit();  // once per worker process: namespace, Log::init(kmsg file), Stats::init

struct IoCfg {
  std::unordered_map<std::string, Oomd::DeviceType> devs;
  Oomd::IOCostCoeffs hdd{1.31e-3, 1.13e-7, 2.58e-1, 5.04e-7, 0, 0};
  Oomd::IOCostCoeffs ssd{1.21e-2, 6.25e-7, 1.07e-3, 2.61e-7, 2.37e-2, 9.10e-10};
};

// parse + compile + construct; returns nullptr (and sets *err) if the config is rejected
std::unique_ptr<Oomd::Oomd> make(const std::string& json, std::string* err = nullptr, int interval = 5,
                                 const std::string& dropInDir = "", const IoCfg& io = {});

struct TickOutcome {
  int ticks = 0;          // ticks completed
  bool escaped = false;   // an exception left Oomd::run
  std::string excType, excWhat, excFrames;
};
// Runs the real Oomd::run for `ticks` ticks. Before tick k (1-based) the clock is advanced by
// spacing(k) seconds and beforeTick(k) is run (the scripted environment step).
TickOutcome runTicks(Oomd::Oomd& o, int ticks, const std::function<void(int)>& beforeTick,
                     const std::function<double(int)>& spacing = nullptr);

int statValue(const std::string& key);  // oomd's Stats counter (0 if absent)
void resetStats();

// ---------------------------------------------------------------------------------------
// Scripted plugin `verif_scripted`: args {"id": <string>, "post_action_delay"?: n}.
// run()/prerun() append to sim::calls and run()'s return value comes from sim::decide.
struct Call {
  std::string id;       // plugin id ("R1.g1.d0", "R1.a1", ...)
  std::string method;   // "prerun" | "run" | "init"
  int tick = 0;
  double t = 0;         // virtual time at call
  double tEnd = 0;      // virtual time at return
  int ret = 0;          // PluginRet of run
  // ActionContext snapshot
  std::string ruleset, group, uuid;
  bool hasDeadline = false;
  double deadline = 0;
  std::string target;    // target_cgroup relative path or "-"
  std::string rulesetCgroup;  // ctx.getRulesetCgroup() relative path or "-"
  std::string instance;  // address-based identity token of the plugin instance
  std::string cgroupArg; // the "cgroup" arg the instance was initialised with ("" if none)
  bool hasInvokingRuleset = false;
};
extern std::vector<Call> calls;
extern int curTick;
// decide(id, instanceToken) -> 0 CONTINUE, 1 STOP, 2 ASYNC_PAUSED
extern std::function<int(const std::string& id, const std::string& inst)> decide;

// Scripted prekill hook `verif_hook`: args {"id":..., "cgroup":...}
struct HookEvent {
  std::string kind;  // fire | poll | destroy
  std::string hook;  // hook id
  std::string cgroup;  // victim relative path
  int tick = 0;
  double t = 0;
  long inv = 0;  // invocation serial
  bool finished = false;
  size_t effectIndex = 0;  // vb::effects.size() at the time (interleaving with kill effects)
};
extern std::vector<HookEvent> hookEvents;
// the daemon's OomdContext as handed to the scripted plugins (public route to it: no private member of Oomd::Oomd is read)
extern Oomd::OomdContext* curCtx;
// IR root and engine handed to the most recent daemon built by make() (captured before ownership moved: no private read)
extern Oomd::Config2::IR::Root* lastIr;
extern Oomd::Engine::Engine* lastEngine;
// hookDecide(hookId, inv, pollIndex) -> true = finished
extern std::function<bool(const std::string& hook, long inv, int poll)> hookDecide;

void resetScript();

}  // namespace sim
