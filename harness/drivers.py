# Driver table used by ./check and tools/gen_manifest.py: property id -> build + claim description.
COMMON = ["common/boundary.cpp", "common/runner.cpp", "common/world.cpp", "common/sim.cpp"]

NOT_APPLICABLE = {}

DRIVERS = {
    "C02": {
        "sources": COMMON + ["props/c02.cpp"], "level": "model_checking", "engine": "E1",
        "technique": "explicit-state BFS to fixpoint over the real engine (each transition = one real Oomd::run tick with all scripted return-value vectors), compared step by step with a reference model",
        "level_text": "All reachable abstract engine states (per ruleset: remaining pause, suspended action) of every configuration in the family are visited; on every transition the ordered prerun/run call log, the action context each action sees and the engine's private state are compared with an independent reference model. Complete for the configuration family and clock advances listed in evidence.bounds, not for all configurations.",
        "level_note": "Trusted: the scripted plugin (records calls, returns the explorer's choice), the interposed virtual clock, the reference model transcribed from docs/configuration.md. Plugins are assumed to influence the engine only through their return values.",
    },
}
