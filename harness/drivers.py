# Driver table used by ./check and tools/gen_manifest.py: property id -> build + claim description.
COMMON = ["common/boundary.cpp", "common/runner.cpp", "common/world.cpp", "common/sim.cpp"]
COMMON_E2 = ["sched/sched.cpp", "sched/vbstub.cpp", "common/runner.cpp"]

NOT_APPLICABLE = {}

DRIVERS = {
    "C02": {
        "sources": COMMON + ["props/c02.cpp"], "level": "model_checking", "engine": "E1",
        "technique": "explicit-state BFS to fixpoint over the real engine (each transition = one real Oomd::run tick with all scripted return-value vectors), compared step by step with a reference model",
        "level_text": "All reachable abstract engine states (per ruleset: remaining pause, suspended action) of every configuration in the family are visited; on every transition the ordered prerun/run call log, the action context each action sees and the engine's private state are compared with an independent reference model. Complete for the configuration family and clock advances listed in evidence.bounds, not for all configurations.",
        "level_note": "Trusted: the scripted plugin (records calls, returns the explorer's choice), the interposed virtual clock, the reference model transcribed from docs/configuration.md. Plugins are assumed to influence the engine only through their return values.",
    },
    "C06": {
        "sources": COMMON + ["props/c06.cpp"], "level": "model_checking", "engine": "E1",
        "technique": "explicit-state BFS to fixpoint over the real engine with ASYNC_PAUSED at every chain position, compared step by step with a reference model (instance identity and ActionContext equality on resume)",
        "level_text": "Every reachable (pause, suspended action) state of each configuration is visited with all detector verdicts and all action return sequences; on every resume the check demands the same plugin instance and a field-equal action context (ruleset, first-fired group, run uuid, prekill deadline), continuation at the following action, no second chain while suspended and a fresh uuid afterwards. Complete for the listed family.",
        "level_note": "Trusted: scripted plugin, virtual clock, reference model. target_cgroup equality on resume is checked in C11 (ruleset-cgroup instances), where it is non-empty.",
    },
    "C05": {
        "sources": COMMON + ["props/c05.cpp"], "level": "model_checking", "engine": "E1",
        "technique": "explicit-state BFS to fixpoint over the real engine + real (dry) kill plugins + scripted prekill hooks under a virtual clock, compared with a reference pause model",
        "level_text": "For every (ruleset delay, plugin delay, hook variant) configuration all reachable (remaining pause, suspended action, remaining hook window) states are visited with clock advances 1/2/3 s, so ticks land before, exactly at and after t+d; STOP is reached synchronously, after prekill-hook waits and after kill_by_pg_scan's sampling tick, with the detector firing or silent on the resume tick. Model equality of the call log plus the engine's private pause timestamp decide the property.",
        "level_note": "Trusted: observer plugin verif_wrap (forwards to the real plugin and records its return), scripted hook, virtual clock. Wet kills (which sleep inside the action) are covered by C01/C17, not here.",
    },
    "C13": {
        "sources": COMMON + ["props/c13.cpp"], "level": "model_checking", "engine": "E1",
        "technique": "explicit-state BFS over drop-in operation histories on the real engine through the real DropInServiceAdaptor, reference-model comparison after every operation plus differential reversibility on the implementation",
        "level_text": "All reachable drop-in states (per base ruleset the ordered list of tagged copies, hook priority list, counter) are visited for every base permission combination in the family; after every operation evaluation order, enablement, copy freshness, oomd.dropin.added, hook priority and private bookkeeping must equal the model, and removing a tag must give the same observation as never having added it (checked by running both histories on the real code).",
        "level_note": "Trusted: scripted plugins/hooks, reference model transcribed from docs/drop_in_configs.md and docs/prekill_hooks.md. The inotify/file layer that feeds the adaptor is C14's subject.",
    },
    "C11": {
        "sources": COMMON + ["props/c11.cpp"], "level": "model_checking", "engine": "E1",
        "technique": "explicit-state BFS over cgroup create/remove/tag histories on the simulated cgroupfs through the real Oomd::run, one reference engine model per matching cgroup plus plugin-instance identity tracking",
        "level_text": "Every reachable combination of (existing matching cgroups, tagged cgroups, per-instance pause/suspension) within the depth bound is visited with all scripted plugin answers; each matching cgroup must be evaluated exactly once per tick with itself as ruleset cgroup and action target, keep its plugin instances while it exists at every tick, get never-seen-before instances after an absent tick, receive prerun every tick, and pause/suspend independently; discards must be ASan-clean.",
        "level_note": "Trusted: scripted plugins, simulated cgroupfs on tmpfs (real glob(3), real xattrs), reference model. Evaluation order among matching cgroups and instant re-creation inside one step are left open.",
    },
    "C01": {
        "sources": COMMON + ["props/c01.cpp"], "level": "exploration", "engine": "E1",
        "technique": "bounded-exhaustive enumeration of (tree, population, plugin, pattern, flags, kill outcomes, history) scenarios executed on the real kill plugins over an interposed kill/xattr/write boundary; effect-log monitor",
        "level_text": "The complete product of the scenario axes listed in evidence.rule is executed wet against the real kill path (getAndTryToKillPids streaming, retry loop with virtual sleeps, cached-children recursion, reap, kernelkill); every kill(2), xattr write, control-file write and pidfd syscall oomd issues is observed at the libc boundary and checked for containment. A universal negative over the enumerated family, not over all trees.",
        "level_note": "Trusted: the harness is libc for kill/setxattr/write/syscall (seccomp blocks a real SYS_kill as second guard); world model of cgroup.procs/cgroup.kill semantics; independent component-wise glob matcher.",
    },
    "C03": {
        "sources": COMMON + ["props/c03.cpp"], "level": "exploration", "engine": "E1",
        "technique": "choice-point enumeration (full product / deviation-bounded) of per-node attribute assignments executed on the real kill plugins; observed victim attempt sequence checked for membership in the set produced by a reference search with open ties",
        "level_text": "Every attribute assignment within the stated bound is executed wet on the real plugins; the sequence of attacked cgroups (kill-uuid xattr writes) of each invocation must be one the reference DFS can produce, which decides preference-over-metric, prefer-wins, oom.group, no-descent-without-recursive, unpopulated-skip, fallback/backtracking and stop-at-first-success together.",
        "level_note": "Trusted: effect log at the libc boundary, world model, reference search written from docs/core_plugins.md. Ties (equal preference and metric) are left open.",
    },
    "C17": {
        "sources": COMMON + ["props/c17.cpp"], "level": "exploration", "engine": "E1",
        "technique": "bounded-exhaustive scenario product executed on the real kill plugins (wet and dry); monitor over xattr writes, kmsg sink writes, the oomd.kills counter and the observed PluginRet",
        "level_text": "The complete product listed in evidence.rule is executed; for every kill attempt the xattr values written are compared with the values an independent shadow store predicts, the kmsg sink is inspected at the write(2) boundary (so log silencing cannot hide a record), and the plugin's return value is observed through a transparent wrapper together with whether the following action ran.",
        "level_note": "Trusted: effect log at the libc boundary, shadow xattr arithmetic, verif_wrap observer. kernelkill's oomd_kill amount is left open (no SIGKILL count exists there).",
    },
    "C04": {
        "sources": COMMON + ["common/sdbus_stub.cpp", "props/c04.cpp"], "level": "exploration", "engine": "E1",
        "technique": "bounded-exhaustive scenario product, each executed twice (wet / dry) on the real plugins from identical simulated worlds; differential monitor over the effect logs at the libc and sd-bus boundary",
        "level_text": "For every scenario of the product the dry execution's effect log must contain no kill, xattr write, control-file write, pidfd/process_mrelease or sd-bus call and leave oomd.kills / oomd.restarts untouched, while naming (marked '(dry)') the cgroup the wet execution attacks first and showing the same return value and the same ticks of later chain starts as a wet run whose first attempt succeeded.",
        "level_note": "Trusted: harness is libc/sd-bus for all effect calls; world determinism (both runs start from byte-identical trees at the same virtual time).",
    },
    "C16": {
        "sources": COMMON + ["props/c16.cpp"], "level": "exploration", "engine": "E1",
        "technique": "bounded-exhaustive enumeration of all path/pattern strings and directory universes up to the stated sizes, each checked against an independent reference (canonical component list, hand-written component-wise glob)",
        "level_text": "Complete enumeration: no string, pair or directory subset within the bounds is skipped, so any counterexample of that size to canonicalisation, child/parent identity, equality/hash agreement, the three-case prekill pattern relation or wildcard resolution on a real file system is found.",
        "level_note": "Trusted: the reference in harness/common/refglob.h (shares no code with oomd or glob(3)); real tmpfs for resolution. '.'/'..' pattern components and bracket/brace syntax are left open.",
    },
    "C12": {
        "sources": COMMON + ["props/c12.cpp"], "level": "exploration", "engine": "E1",
        "technique": "bounded-exhaustive enumeration of number/size strings, single-deviation IRs and JSON documents through both real loading paths (start-up and run-time drop-in), against a three-valued exact-arithmetic reference; crash/exception/UB outcome monitor under ASan+UBSan(float-cast-overflow)",
        "level_text": "All strings up to the stated length, every single deviation of every plugin's argument table and every single shape deviation / truncation of a maximal JSON document are loaded through Main.cpp's own parseConfig+compile and through the drop-in adaptor; an outcome is a violation if the process would crash, an exception escapes the path's top level, an input the reference proves invalid is accepted, a valid one is rejected, an accepted value is not held exactly, or a rejected drop-in changes the engine.",
        "level_note": "Trusted: reference grammar in harness/common/refnum.h (exact __int128 arithmetic; DONT_CARE where docs are silent), plugin argument tables transcribed from docs/core_plugins.md and the plugin headers. Main.cpp is compiled into the driver with main() renamed.",
    },
    "C07": {
        "sources": COMMON + ["props/c07.cpp"], "level": "model_checking", "engine": "E1",
        "technique": "stateless deviation-bounded exploration (choice-point DFS with prefix replay) of hook completion histories and environment events over the real kill plugin / engine prekill-hook path; monitor over the interleaved hook and effect log",
        "level_text": "For each hook-list/pattern/timeout/spacing configuration every sequence of hook poll answers and per-tick victim events with at most k deviations from the default (hook finishes at once, nothing happens) is executed on the real code over 5 ticks; the monitor decides one-hook-per-victim, priority order, window, finished-or-timed-out-before-kill, destroy-before-signal, single outstanding invocation and identity change. Coverage is all executions within the deviation bound, reported as transitions; states are distinct observable histories.",
        "level_note": "Trusted: scripted hook (records fire/poll/destroy interleaved with the effect log), reference three-case pattern relation, virtual clock. Behaviour exactly at the deadline is left open.",
    },
    "C09": {
        "sources": COMMON + ["props/c09.cpp"], "level": "exploration", "engine": "E1",
        "technique": "bounded-exhaustive product of per-sibling statistic profiles and plugin parameters executed on the real kill plugins (dry), first choice compared with an independent reference ranking in exact/long-double arithmetic with explicit tolerance",
        "level_text": "Every combination of the per-sibling profiles (sizes up to 2^61, values around 2^31 and 2^32, fractional ratios and pressures, zero and negative rate increases) with every listed parameter value is executed on the real plugin; the cgroup named in the '(dry)' record must be in the reference's arg-max set, must pass the eligibility filter, and must exist whenever a candidate is eligible.",
        "level_note": "Trusted: reference ranking written from docs/core_plugins.md (A.3 of DESIGN.md), tolerance rules (ties, thresholds within 1e-9 relative, float ratio within 1e-5), simulated statistics files.",
    },
    "C08": {
        "sources": COMMON + ["props/c08.cpp"], "level": "exploration", "engine": "E1",
        "technique": "exhaustive enumeration of all sample histories up to length T over each detector's letter alphabet, executed on the real detectors under a virtual clock; oracle evaluates the documented predicate over the whole history",
        "level_text": "Every history (value relative to threshold x irregular clock advance x cgroup presence) of the stated length is run through the real detector inside Oomd::run; at every tick the detector's return value and whether the action chain ran are compared with the documented predicate computed non-incrementally from the whole history, so arming/disarming bookkeeping errors cannot be mirrored by the oracle.",
        "level_note": "Trusted: verif_wrap observer, virtual clock, simulated PSI/memory/vmstat/swaps files, predicates transcribed from docs/core_plugins.md (A.5 of DESIGN.md).",
    },
    "C15": {
        "sources": COMMON + ["props/c15.cpp"], "level": "exploration", "engine": "E1",
        "technique": "bounded-exhaustive enumeration of file contents (kernel grammar, one axis at a time + full products for formula inputs) and multi-tick histories, every public CgroupContext accessor compared with reference functions inside the running tick; within-tick stability by mutate-and-requery",
        "level_text": "All scenarios of the listed families are run through the real Oomd::run refresh cycle; inside every tick all 32 accessors of every cgroup are compared with independent reference functions (parsing, hierarchical protection, effective swap min/min/max over ancestors, io-cost dot product, EWMA, per-tick deltas, identity), files are then rewritten and all accessors re-queried (no value may move), and the next tick must show the new contents.",
        "level_note": "Trusted: reference functions written from CgroupContext.h comments and docs/io_cost.md (DESIGN.md A.4), simulated files on tmpfs. Missing/empty/unparsable files belong to C10.",
    },
    "C18": {
        "sources": COMMON + ["props/c18.cpp"], "level": "exploration", "engine": "E1",
        "technique": "bounded-exhaustive enumeration of world/argument/history scenarios executed on the real senpai plugin; monitor over every control-file write at the interposed write(2) with independently recomputed floor, ceiling and guards",
        "level_text": "Every scenario of the four families (arguments one at a time x PSI histories, product of all floor/ceiling/guard inputs, pressures around the immediate-mode targets, vanishing / re-created / externally modified targets) is executed for 8 ticks in both modes; each write senpai makes is checked for target, file, alignment, floor, ceiling, amount, pressure guard, swap guard and same-tick reset.",
        "level_note": "Trusted: reference floor/ceiling/guards (DESIGN.md A.6), harness model of kernfs read-back of memory.high / memory.high.tmp / memory.reclaim. The threaded memory_high_timeout_ms path is not exercised.",
    },
    "C10": {
        "sources": COMMON + ["props/c10.cpp"], "level": "fault_enumeration", "engine": "E1",
        "technique": "complete enumeration of single and double faults (file absent/empty/unreadable per cgroup role, optional keys, format variants, DT_UNKNOWN) and of every file-access index as the point where a cgroup is removed or re-created, each executed on the real tick loop under ASan+UBSan+_GLIBCXX_ASSERTIONS with an exception/hang/containment monitor",
        "level_text": "Every fault of the stated space is injected at the interposed open/openat/fopen/faccessat/xattr boundary (or by an environment event fired immediately before the k-th file access, for every k of the run) and the unmodified Oomd::run is executed for 3 ticks with all core plugins configured; a run counts as survived only if it reaches its horizon with no sanitizer or assertion report, no exception leaving Oomd::run, no hang, and with every signal still confined to the selected victim.",
        "level_note": "Trusted: fault injection at the libc boundary (glob(3)'s internal directory reads cannot be faulted), harness world. A fault present at configuration load time may lead to a clean rejection, which counts as survived. Garbage contents are outside the statement.",
    },
    "C20": {
        "sources": COMMON_E2 + ["props/c20.cpp"], "level": "model_checking", "engine": "E2", "extra": ["TSAN", "C20A"], "tsan_mode": "log", "atomics": "C20A",
        "technique": "stateless preemption-bounded enumeration of all thread schedules of the real Log (producers, flusher, environment thread, shutdown) under a cooperative scheduler interposed at the pthread boundary; FIFO-multiset / backlog oracle per schedule; second exhaustive pass in which liboomd's atomic operations are scheduling points too; separate free-running ThreadSanitizer pass",
        "level_text": "For every configuration all schedules with at most PB preemptions are executed on the real implementation (one process per schedule); each is checked for exactly-once delivery, per-thread order, flush-before-shutdown-returns, the 1 MiB unwritten bound at every step, drop accounting, per-thread silencing and absence of deadlock/livelock. The coverage statement is at synchronisation-point granularity.",
        "level_note": "Trusted: scheduler (harness/sched), harness sink. Assumes data-race freedom between synchronisation points, which a separate TSan build of the same bodies monitors; memory orderings weaker than seq-cst are not modelled. Atomic operations are scheduling points only in the atomics pass (liboomd compiled with -fsanitize=thread and linked against harness/sched/tsanstub_nosan.cpp instead of libtsan; quick tier: preemption bound 1).",
    },
    "C19": {
        "sources": COMMON_E2 + ["props/c19.cpp"], "level": "model_checking", "engine": "E2", "extra": ["TSAN", "C19A"], "tsan_mode": "stats", "atomics": "C19A",
        "technique": "stateless preemption-bounded enumeration of all thread schedules of the real Stats service (API callers, accept thread, handler threads, scheduled socket clients, destructor) under a cooperative scheduler with virtual-time socket/condvar timeouts; brute-force linearizability check (API calls and socket get/reset sessions in one history) and protocol monitor per schedule; second exhaustive pass in which liboomd's atomic operations are scheduling points too; separate ThreadSanitizer pass",
        "level_text": "All schedules with at most PB preemptions of each counter program and of each client-session configuration are executed on the real implementation, one process per schedule, over real AF_UNIX sockets whose readiness is peeked non-blockingly by the scheduler; timeouts (2 s socket, 5 s shutdown wait) fire in virtual time at quiescence. Every call/return history must be linearizable, every session must get at most one well-formed reply, the server must stay responsive and ~Stats must return.",
        "level_note": "Trusted: scheduler and its enabledness rules (poll-based readiness, timers at quiescence), harness clients. Scheduling-point granularity (pthread/socket/file operations; plus atomic operations in the atomics pass, quick tier preemption bound 1 there); data races are the TSan pass's job.",
    },
    "C14": {
        "sources": COMMON_E2 + ["props/c14.cpp"], "level": "model_checking", "engine": "E2", "extra": ["TSAN", "C14A"], "tsan_mode": "dropin", "atomics": "C14A",
        "technique": "stateless preemption-bounded enumeration of all schedules of main loop x real inotify/epoll watcher thread x environment thread for every bounded file-operation sequence, under a cooperative scheduler; convergence oracle against the file system's final contents; second exhaustive pass in which liboomd's atomic operations are scheduling points too; separate ThreadSanitizer pass",
        "level_text": "For every environment sequence within the bound, all schedules with at most PB preemptions are executed on the real FsDropInService (real inotify, epoll, eventfd on a private directory), one process per schedule; the run must not deadlock, abort or crash, and once the file system is quiet and three more ticks have run the engine's drop-ins must be exactly the valid non-dot files present with their latest content; start-up files must load in name order.",
        "level_note": "Trusted: scheduler (epoll readiness peeked non-blockingly; inotify delivers synchronously), harness environment thread. Scheduling-point granularity (pthread/socket/file operations; plus atomic operations in the atomics pass, quick tier preemption bound 1 there); data races are the TSan pass's job.",
    },
    "TSAN": {
        "hidden": True, "variant": "tsan", "sources": ["props/tsan_pass.cpp"], "level": "other",
    },
    # atomics pass: same driver sources, liboomd with TSan-ABI calls resolved by sched/tsanstub_nosan.cpp (atomic ops = scheduling points)
    "C14A": {"hidden": True, "variant": "atm", "sources": COMMON_E2 + ["props/c14.cpp", "sched/tsanstub_nosan.cpp"], "level": "other"},
    "C19A": {"hidden": True, "variant": "atm", "sources": COMMON_E2 + ["props/c19.cpp", "sched/tsanstub_nosan.cpp"], "level": "other"},
    "C20A": {"hidden": True, "variant": "atm", "sources": COMMON_E2 + ["props/c20.cpp", "sched/tsanstub_nosan.cpp"], "level": "other"},
}
