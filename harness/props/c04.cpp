// C04 - Dry-run. Differential: every scenario is executed twice from identical worlds, wet and
// dry.  Dry oracle: no kill / xattr / control-file write / pidfd / process_mrelease / sd-bus
// call, counters unchanged, a '(dry)' record naming the cgroup the wet run attacked first, STOP
// and the same subsequent chain timing as a wet run whose first attempt succeeded.
#include "common/killsim.h"
#include "common/runner.h"
#include "oomd/Stats.h"

namespace {
using ks::Cg;
const char* kPlugins[] = {"kill_by_memory_size_or_growth", "kill_by_pressure", "kill_by_swap_usage", "kill_by_io_cost",
                          "kill_by_pg_scan"};
std::vector<std::vector<std::string>> kShapes = {
    {"s1", "s10", "s1x", "t1"},
    {"s1", "s1/a", "s1/b", "s10", "s10/a", "t1"},
    {"s1", "s1/a", "s1/a/x", "s1/a/y", "s1/b", "s10"},
};
const char* kPatterns[] = {"s*", "s1,t1", "s1/*", "/"};

struct C04 : vr::Driver {
  vr::Mixed mx;
  std::vector<int> plugins;
  size_t nKill = 0;
  std::string tier_;
  std::string id() override { return "C04"; }
  void configure(const std::string& tier, uint64_t) override {
    tier_ = tier;
    bool th = tier == "thorough";
    plugins = th ? std::vector<int>{0, 1, 2, 3, 4} : std::vector<int>{0, 1, 2};
    // dims: shape(3) pop(4: + every process survives SIGKILL, so the wet world stays what the dry world is) plugin pattern(4) recursive(2) kernelkill(2) pref(3) delay(3: ruleset 2 / plugin 3 / plugin 0) always_continue(2)
    //       prekill hook(3: none / finishes at once / pending for one tick, i.e. the kill is deferred and resumed)
    mx.dims = {3, 4, plugins.size(), 4, 2, 2, 3, 3, 2, 3};
    nKill = mx.total();
  }
  size_t count() override { return nKill + 8; }  // + systemd_restart scenarios
  size_t chunk() override { return 8; }

  ks::Scenario build(size_t idx, bool dry) {
    ks::Scenario s;
    if (idx >= nKill) {  // systemd_restart: delay x (none / preceded by nothing)
      size_t k = idx - nKill;
      s.plugin = "systemd_restart";
      s.args["service"] = "foo.service";
      s.args["post_action_delay"] = std::to_string(k % 4);
      s.ticks = 4;
      s.rulesetDelay = 2;
      if (dry) s.args["dry"] = "true";
      Cg c;
      c.rel = "s1";
      c.nprocs = 1;
      s.cgs.push_back(c);
      if (k >= 4) s.silence = "plugins";
      return s;
    }
    auto d = mx.decode(idx);
    const auto& shape = kShapes[d[0]];
    for (size_t i = 0; i < shape.size(); i++) {
      Cg c;
      c.rel = shape[i];
      bool leaf = true;
      for (auto& o : shape)
        if (o.size() > c.rel.size() && o.compare(0, c.rel.size() + 1, c.rel + "/") == 0) leaf = false;
      c.nprocs = d[1] == 0 ? (leaf ? 1 : 0) : d[1] == 1 ? (leaf ? (i % 2 ? 0 : 22) : 0) : d[1] == 2 ? (leaf ? 2 : 1) : (leaf ? 2 : 0);
      if (d[1] == 3) c.lingerAll = 1000;
      c.mem = (long long)(i + 1) * (100LL << 20);
      c.swap = (long long)(shape.size() - i) * (10LL << 20);
      c.p10 = 10 + 3 * (double)i;
      c.p60 = 6 + 2 * (double)i;
      c.pgscan = 100 * (long long)(i + 1);
      if (d[6] == 1 && i == 0) c.pref = 1;
      if (d[6] == 2 && i + 1 == shape.size()) c.pref = 2;
      s.cgs.push_back(c);
    }
    s.plugin = kPlugins[plugins[d[2]]];
    s.args["cgroup"] = kPatterns[d[3]];
    s.args["recursive"] = d[4] ? "true" : "false";
    if (d[5]) s.args["kernelkill"] = "true";
    if (s.plugin == "kill_by_pressure") s.args["resource"] = "memory";
    if (d[7] == 1) s.args["post_action_delay"] = "3";
    if (d[7] == 2) s.args["post_action_delay"] = "0";
    if (d[8]) s.args["always_continue"] = "true";
    if (dry) s.args["dry"] = "true";
    if (d[9]) {
      s.hooksJson = "{\"name\":\"verif_hook\",\"args\":{\"id\":\"h\",\"cgroup\":\"/\"}}";
      s.hookTimeout = 30;
      bool pending = d[9] == 2;
      s.hookDecide = [pending](const std::string&, long, int polls) { return !pending || polls >= 1; };
    }
    s.ticks = 5;
    s.rulesetDelay = 2;
    return s;
  }
  std::string describe(size_t i) override { return build(i, true).describe() + "  (vs. the same scenario wet)"; }
  std::string klass(size_t i) override { return build(i, true).plugin; }
  void workerInit() override { sim::processInit(); }

  void run(size_t idx, vr::Result& r, bool verbose) override {
    ks::Scenario sw = build(idx, false), sd = build(idx, true);
    ks::Outcome ow = runWith(sw, verbose), od = runWith(sd, verbose);
    std::string cls = "C04|" + sd.plugin + "|";
    if (!ow.rejected.empty() || !od.rejected.empty()) {
      r.violate("C04|harness|config-rejected", ow.rejected + od.rejected);
      return;
    }
    if (od.tick.escaped || ow.tick.escaped) {
      r.violate(cls + "uncaught:" + (od.tick.escaped ? od.tick.excType : ow.tick.excType), sd.describe());
      return;
    }
    auto dump = [&](const ks::Outcome& o) {
      std::ostringstream l;
      for (size_t i = 0; i < o.effects.size(); i++) l << "  [t" << o.tickOfEffect(i) << "] " << o.effects[i].str().substr(0, 200) << "\n";
      for (auto& c : o.calls)
        if (c.method == "run" && c.id != "det") l << "  call t" << c.tick << " " << c.id << " -> " << "CSA"[c.ret] << "\n";
      return l.str();
    };
    auto fail = [&](const std::string& rule, const std::string& text) {
      r.violate(cls + "monitor:" + rule, sd.describe() + "\n" + text + "\n--- dry run:\n" + dump(od) + "--- wet run:\n" + dump(ow));
    };
    // 1. no side effects in the dry run
    for (auto& e : od.effects) {
      if (e.kind == "kill" || e.kind == "setxattr" || e.kind == "ctlwrite" || e.kind == "syscall" || e.kind == "sdbus")
        return fail("dry-side-effect:" + e.kind, e.str());
    }
    for (int t = 1; t <= sd.ticks; t++)
      if (od.killsStatAtTickEnd[t] != 0) return fail("dry-counter:oomd.kills", "oomd.kills = " + std::to_string(od.killsStatAtTickEnd[t]) + " after tick " + std::to_string(t));
    if (sd.plugin == "systemd_restart") {
      if (dryRestarts != 0) return fail("dry-counter:oomd.restarts", "oomd.restarts = " + std::to_string(dryRestarts) + " after a dry run");
      // record marked (dry)
      bool rec = false;
      for (auto& e : od.effects) rec |= e.kind == "kmsg" && e.arg.find("(dry)") != std::string::npos && e.arg.find("foo.service") != std::string::npos;
      if (!rec) return fail("dry-record", "no '(dry)' record naming the service");
      bool wetCall = false;
      for (auto& e : ow.effects) wetCall |= e.kind == "sdbus" && e.arg == "call RestartUnit";
      if (!wetCall) return fail("harness", "wet run did not call RestartUnit");
    }
    // 2. same first victim, marked (dry)
    auto firstAttemptTick = [](const ks::Outcome& o) { return o.attempts.empty() ? 0 : o.attempts[0].tick; };
    if (sd.plugin != "systemd_restart") {
      int tw = firstAttemptTick(ow), td = firstAttemptTick(od);
      if ((tw == 0) != (td == 0) || (tw && (tw != td || ow.attempts[0].victim != od.attempts[0].victim)))
        return fail("first-victim", std::string("wet run first attacks ") + (tw ? ow.attempts[0].victim + " at tick " + std::to_string(tw) : "(nothing)") +
                                        ", dry run names " + (td ? od.attempts[0].victim + " at tick " + std::to_string(td) : "(nothing)"));
      if (td && !od.attempts[0].dry) return fail("dry-record", "record not marked (dry)");
    }
    // 2b. when no process ever dies (every kill is delivered but the process survives) the wet world stays what the dry world is,
    // so the first victim must agree on EVERY tick, not only on the first kill
    if (sd.plugin != "systemd_restart" && idx < nKill && mx.decode(idx)[1] == 3) {
      for (int t = 1; t <= sd.ticks; t++) {
        std::string vw, vd;
        for (auto& a : ow.attempts)
          if (a.tick == t && vw.empty()) vw = a.victim;
        for (auto& a : od.attempts)
          if (a.tick == t && vd.empty()) vd = a.victim;
        if (vw != vd)
          return fail("first-victim", "tick " + std::to_string(t) + " (no process ever dies in this world): the wet run first attacks " + (vw.empty() ? "(nothing)" : vw) + ", the dry run names " + (vd.empty() ? "(nothing)" : vd));
      }
    }
    // 3. control flow: return value and chain timing equal to a wet run whose first attempt succeeded
    bool wetFirstSucceeded = sd.plugin == "systemd_restart" ||
                             (!ow.attempts.empty() && (ow.attempts[0].signalled() > 0 || ow.attempts[0].killFileWritten));
    auto kTicks = [](const ks::Outcome& o, int upto) {
      std::string s;
      for (auto& c : o.calls)
        if (c.id == "K" && c.method == "run" && c.tick <= upto) s += std::to_string(c.tick) + "CSA"[c.ret] + std::string(" ");
      return s;
    };
    if (wetFirstSucceeded) {
      // Up to and including the NEXT chain start the two runs must agree: same first run tick, same return value (STOP unless
      // always_continue) and the same tick at which the kill action is reached again (= same pause). What the action returns
      // there may differ legitimately: the wet world has lost its victim.
      auto head = [](const ks::Outcome& o) {
        std::string s;
        bool done = false;  // the kill action has returned something other than ASYNC_PAUSED (deferred by a prekill hook)
        for (auto& c : o.calls)
          if (c.id == "K" && c.method == "run") {
            if (done) {
              s += "next@" + std::to_string(c.tick);
              break;
            }
            s += std::to_string(c.tick) + "CSA"[c.ret] + std::string(" ");
            done = c.ret != 2;
          }
        return s;
      };
      if (head(ow) != head(od))
        return fail("control-flow", "kill action first ran/returned and was next reached [" + head(od) + "] dry but [" + head(ow) + "] wet");
    }
    r.counters["pairs_with_victim"] += !od.attempts.empty();
    r.counters["pairs_wet_first_attempt_succeeded"] += wetFirstSucceeded;
    std::string ob = sd.plugin + kTicks(od, sd.ticks);
    for (auto& a : od.attempts) ob += a.victim + ";";
    if (!od.attempts.empty() || sd.plugin == "systemd_restart") r.nontrivial(ob);
    r.evals = 2;
  }
  int dryRestarts = 0;
  ks::Outcome runWith(const ks::Scenario& s, bool verbose) {
    ks::Outcome o = ks::run(s, verbose);
    if (s.plugin == "systemd_restart" && s.args.count("dry")) dryRestarts = sim::statValue("oomd.restarts");
    return o;
  }
  std::string rule() override {
    return "every scenario of (3 shapes x 3 populations x plugin x 4 cgroup arguments x recursive x kernelkill x preference marks x delay "
           "variant x always_continue x prekill hook {none, finishes at once, pending one tick so that the kill is deferred and resumed}) plus 8 systemd_restart scenarios is executed twice from identical worlds, dry=false and dry=true, "
           "5 ticks each; dry oracle: effect log free of kill/setxattr/control-file write/pidfd_open/process_mrelease/sd_bus, oomd.kills "
           "and oomd.restarts unchanged, '(dry)' kmsg record naming the wet run's first attacked cgroup on the same tick, same PluginRet "
           "and same ticks of subsequent chain starts as the wet run when its first attempt succeeded; non-trivial = distinct dry "
           "decision log with a victim";
  }
  Json::Value bounds() override {
    Json::Value b;
    b["ticks"] = 5;
    b["plugins"] = (int)plugins.size() + 1;
    return b;
  }
  std::vector<std::string> assumptions() override {
    return {"sd-bus is replaced by a recorder (sd_bus_call_method reports success)", "wet and dry worlds are materialised identically; comparison of chain timing stops before the wet run's second attempt"};
  }
};
}  // namespace
int main(int argc, char** argv) {
  C04 d;
  return vr::main(argc, argv, d);
}
