// C12 - A configuration is either rejected cleanly or honoured exactly.
//  N: ALL strings up to length L over a 19-letter alphabet through parseSize / parseSizeOrPercent /
//     parseValue<T> / parseUnsignedInt against an exact-arithmetic reference grammar;
//  I: IR over the core plugins: baseline all-valid, every single deviation (required arg missing,
//     unknown arg, every arg <- every valid and invalid sample), ruleset-level fields, through BOTH
//     loading paths (start-up: Main.cpp's parseConfig + compile; run time: drop-in adaptor);
//  J: JSON documents: every node position x alien value shape, every byte-prefix truncation and
//     single-byte deletion, through both paths.
// plugin headers first: they name Oomd::Engine::..., which class Oomd::Oomd (seen via Main.cpp) would shadow
#include "oomd/plugins/BaseKillPlugin.h"
#include "oomd/plugins/KillMemoryGrowth.h"
#include "oomd/plugins/KillSwapUsage.h"
#include "oomd/plugins/MemoryAbove.h"
#include "oomd/plugins/NrDyingDescendants.h"
#include "oomd/plugins/PressureAbove.h"
#include "oomd/plugins/PressureRisingBeyond.h"
#include "oomd/plugins/Senpai.h"
#include "oomd/plugins/SwapFree.h"
#include <cxxabi.h>
#define main oomd_real_main
#include "oomd/Main.cpp"
#undef main

#include <cmath>
#include <set>

#include "common/boundary.h"
#include "common/refnum.h"
#include "common/runner.h"
#include "common/sim.h"
#include "common/world.h"
#include "oomd/dropin/DropInServiceAdaptor.h"
#include "oomd/engine/Engine.h"
#include "oomd/util/PluginArgParser.h"
#include "oomd/util/Util.h"

namespace {
using rn::i128;

std::string i128str(i128 v) {
  if (v == 0) return "0";
  bool neg = v < 0;
  if (neg) v = -v;
  std::string s;
  while (v > 0) {
    s = char('0' + (int)(v % 10)) + s;
    v /= 10;
  }
  return (neg ? "-" : "") + s;
}

// ------------------------------------------------------------------------------------------
// argument specification of the core plugins (transcribed from docs/core_plugins.md + plugin headers)
enum Ty { T_CGROUP, T_INT, T_UINT, T_INT64, T_FLOAT, T_DOUBLE, T_BOOL, T_RES, T_SIZEPCT, T_MS, T_STR, T_PCTILE };
struct ArgSpec {
  const char* name;
  Ty ty;
  bool required;
  const char* baseline;  // value used in the all-valid baseline ("" = omitted there)
};
struct PluginSpec {
  const char* name;
  bool action;
  std::vector<ArgSpec> args;
  bool acceptsAnything = false;
};
const std::vector<ArgSpec> kKillBase = {{"cgroup", T_CGROUP, false, "a/*"},      {"recursive", T_BOOL, false, "true"},
                                        {"post_action_delay", T_UINT, false, "7"}, {"dry", T_BOOL, false, "true"},
                                        {"always_continue", T_BOOL, false, ""},   {"debug", T_BOOL, false, ""},
                                        {"kernelkill", T_BOOL, false, ""},        {"reap_memory", T_BOOL, false, "false"}};
std::vector<ArgSpec> withBase(std::vector<ArgSpec> own) {
  own.insert(own.end(), kKillBase.begin(), kKillBase.end());
  return own;
}
const std::vector<PluginSpec>& specs() {
  static std::vector<PluginSpec> s = {
      {"pressure_above", false, {{"cgroup", T_CGROUP, false, "a"}, {"resource", T_RES, true, "memory"}, {"threshold", T_INT, true, "80"}, {"duration", T_INT, true, "30"}}},
      {"pressure_rising_beyond", false, {{"cgroup", T_CGROUP, false, "a"}, {"resource", T_RES, true, "io"}, {"threshold", T_INT, true, "60"}, {"duration", T_INT, true, "10"}, {"fast_fall_ratio", T_FLOAT, false, "0.85"}}},
      {"memory_above", false, {{"cgroup", T_CGROUP, false, "a"}, {"threshold", T_SIZEPCT, true, "1.5G 32K"}, {"duration", T_INT, true, "5"}, {"debug", T_BOOL, false, ""}}},
      {"memory_reclaim", false, {{"cgroup", T_CGROUP, false, "a"}, {"duration", T_INT, true, "10"}}},
      {"swap_free", false, {{"threshold_pct", T_INT, true, "15"}, {"swapout_bps_threshold", T_INT64, false, "8589934592"}}},
      {"exists", false, {{"cgroup", T_CGROUP, false, "a,b*"}, {"negate", T_BOOL, false, "true"}, {"debug", T_BOOL, false, ""}}},
      {"nr_dying_descendants", false, {{"cgroup", T_CGROUP, false, "a"}, {"count", T_UINT, true, "30000"}, {"lte", T_BOOL, false, "false"}, {"debug", T_BOOL, false, ""}}},
      {"dump_cgroup_overview", false, {{"cgroup", T_CGROUP, false, "a"}, {"always", T_BOOL, false, "true"}}},
      {"kill_by_memory_size_or_growth", true, withBase({{"size_threshold", T_UINT, false, "40"}, {"growing_size_percentile", T_PCTILE, false, "75"}, {"min_growth_ratio", T_FLOAT, false, "1.75"}})},
      {"kill_by_swap_usage", true, withBase({{"threshold", T_SIZEPCT, false, "50%"}, {"biased_swap_kill", T_BOOL, false, "true"}})},
      {"kill_by_pressure", true, withBase({{"resource", T_RES, true, "io"}})},
      {"kill_by_io_cost", true, withBase({})},
      {"kill_by_pg_scan", true, withBase({})},
      {"senpai", true, {{"cgroup", T_CGROUP, true, "a"}, {"limit_min_bytes", T_INT64, false, "8589934592"}, {"limit_max_bytes", T_INT64, false, "17179869184"}, {"interval", T_INT64, false, "3"}, {"pressure_ms", T_MS, false, "20"}, {"pressure_pct", T_DOUBLE, false, "0.25"}, {"io_pressure_pct", T_DOUBLE, false, "0.5"}, {"max_probe", T_DOUBLE, false, "0.05"}, {"max_backoff", T_DOUBLE, false, "1.5"}, {"coeff_probe", T_DOUBLE, false, "5"}, {"coeff_backoff", T_DOUBLE, false, "10"}, {"immediate_backoff", T_BOOL, false, "true"}, {"memory_high_timeout_ms", T_MS, false, "100"}, {"swap_threshold", T_DOUBLE, false, "0.75"}, {"swapout_bps_threshold", T_INT64, false, "4294967296"}, {"swap_validation", T_BOOL, false, "true"}, {"modulate_swappiness", T_BOOL, false, ""}, {"log_interval", T_INT64, false, "10"}}},
      {"systemd_restart", true, {{"service", T_STR, true, "foo.service"}, {"post_action_delay", T_UINT, false, "3"}, {"dry", T_BOOL, false, "true"}}},
      {"continue", false, {}, true},
      {"stop", true, {}, true},
  };
  return s;
}

struct Sample {
  const char* text;
  bool valid;
  const char* cls;  // class for signatures
};
std::vector<Sample> samplesFor(Ty t) {
  switch (t) {
    case T_INT: return {{"0", true, ""}, {"7", true, ""}, {"-3", true, ""}, {"abc", false, "garbage"}, {"7x", false, "trailing-garbage"}, {"1.9", false, "fraction-for-integer"}, {"99999999999", false, "out-of-range"}};
    case T_PCTILE: return {{"0", true, ""}, {"99", true, ""}, {"abc", false, "garbage"}, {"7x", false, "trailing-garbage"}, {"100", false, "out-of-range"}, {"-1", false, "negative"}};
    case T_UINT: return {{"0", true, ""}, {"12", true, ""}, {"-3", false, "negative"}, {"abc", false, "garbage"}, {"7x", false, "trailing-garbage"}, {"1.9", false, "fraction-for-integer"}, {"99999999999", false, "out-of-range"}};
    case T_INT64: return {{"0", true, ""}, {"104857600", true, ""}, {"8589934592", true, ""}, {"abc", false, "garbage"}, {"1x", false, "trailing-garbage"}, {"1.5", false, "fraction-for-integer"}, {"99999999999999999999", false, "out-of-range"}};
    case T_FLOAT:
    case T_DOUBLE: return {{"0.85", true, ""}, {"1.25", true, ""}, {"2", true, ""}, {"0.30000000000000004", true, ""}, {"1.0000000000000002", true, ""}, {"0.99999999999999989", true, ""}, {"abc", false, "garbage"}, {"1.5x", false, "trailing-garbage"}, {"nan", false, "non-finite"}, {"inf", false, "non-finite"}};
    case T_BOOL: return {{"true", true, ""}, {"false", true, ""}, {"1", true, ""}, {"0", true, ""}, {"True", true, ""}, {"False", true, ""}, {"yes", false, "garbage"}, {"2", false, "garbage"}, {"TRUE", false, "garbage"}};
    case T_RES: return {{"memory", true, ""}, {"io", true, ""}, {"cpu", false, "garbage"}};
    case T_SIZEPCT: return {{"1.5G 32K", true, ""}, {"512", true, ""}, {"50%", true, ""}, {"3T", true, ""}, {"abc", false, "garbage"}, {"10X", false, "garbage"}, {"120%", false, "out-of-range"}, {"1e30", false, "overflow"}, {"50%z", false, "trailing-garbage"}, {"5x%", false, "trailing-garbage"}, {"nan", false, "non-finite"}};
    case T_MS: return {{"10", true, ""}, {"250", true, ""}, {"x", false, "garbage"}, {"5q", false, "trailing-garbage"}};
    case T_STR: return {{"foo.service", true, ""}};
    case T_CGROUP: return {{"a", true, ""}, {"a/*,b", true, ""}, {"/", true, ""}};
  }
  return {};
}

long double exactValue(Ty t, const std::string& text, long long memTotal, long long swapTotal, bool swapBased) {
  switch (t) {
    case T_BOOL: return (text == "true" || text == "True" || text == "1") ? 1 : 0;
    case T_SIZEPCT: {
      auto v = rn::refSizeOrPercent(text, swapBased ? swapTotal : memTotal);
      return (long double)v.lo;
    }
    case T_DOUBLE: return (long double)strtod(text.c_str(), nullptr);  // the nearest double, exactly
    case T_FLOAT: return (long double)strtof(text.c_str(), nullptr);
    default: return strtold(text.c_str(), nullptr);
  }
}

// read the parsed value of (plugin, arg) back from the compiled plugin's private state; NAN = not inspected
// Private fields are read through a `requires`-guarded generic lambda: if a refactoring renames or removes a field the value
// check for that argument is skipped (NAN = not inspected) instead of breaking the harness build.
#define VFX(ptr, expr)                                                        \
  do {                                                                        \
    long double v_ = NAN;                                                     \
    [&](auto* p_) {                                                           \
      if constexpr (requires { (long double)(expr); }) v_ = (long double)(expr); \
    }(ptr);                                                                   \
    return v_;                                                                \
  } while (0)
long double fieldOf(Oomd::Engine::BasePlugin* p, const std::string& plugin, const std::string& arg) {
  using namespace Oomd;
  if (auto* k = dynamic_cast<BaseKillPlugin*>(p)) {
    if (arg == "recursive") VFX(k, p_->recursive_);
    if (arg == "post_action_delay") VFX(k, p_->postActionDelay_ ? *p_->postActionDelay_ : -1);
    if (arg == "dry") VFX(k, p_->dry_);
    if (arg == "always_continue") VFX(k, p_->alwaysContinue_);
    if (arg == "debug") VFX(k, p_->debug_);
    if (arg == "kernelkill") VFX(k, p_->kernelKill_);
    if (arg == "reap_memory") VFX(k, p_->reapMemory_);
  }
  if (auto* x = dynamic_cast<PressureAbove*>(p)) {
    if (arg == "threshold") VFX(x, p_->threshold_);
    if (arg == "duration") VFX(x, p_->duration_);
    if (arg == "resource") VFX(x, p_->resource_ == ResourceType::MEMORY ? 1 : 2);
  }
  if (auto* x = dynamic_cast<PressureRisingBeyond*>(p)) {
    if (arg == "threshold") VFX(x, p_->threshold_);
    if (arg == "duration") VFX(x, p_->duration_);
    if (arg == "fast_fall_ratio") VFX(x, p_->fast_fall_ratio_);
  }
  if (auto* x = dynamic_cast<MemoryAbove*>(p)) {
    if (arg == "threshold") VFX(x, p_->threshold_);
    if (arg == "duration") VFX(x, p_->duration_);
  }
  if (auto* x = dynamic_cast<SwapFree*>(p)) {
    if (arg == "threshold_pct") VFX(x, p_->threshold_pct_);
    if (arg == "swapout_bps_threshold") VFX(x, p_->swapout_bps_threshold_);
  }
  if (auto* x = dynamic_cast<NrDyingDescendants*>(p)) {
    if (arg == "count") VFX(x, p_->count_);
    if (arg == "lte") VFX(x, p_->lte_);
  }
  if (auto* x = dynamic_cast<KillMemoryGrowth<>*>(p)) {
    if (arg == "size_threshold") VFX(x, p_->size_threshold_);
    if (arg == "growing_size_percentile") VFX(x, p_->growing_size_percentile_);
    if (arg == "min_growth_ratio") VFX(x, p_->min_growth_ratio_);
  }
  if (auto* x = dynamic_cast<KillSwapUsage<>*>(p)) {
    if (arg == "threshold") VFX(x, p_->threshold_);
    if (arg == "biased_swap_kill") VFX(x, p_->biasedSwapKill_);
  }
  if (auto* x = dynamic_cast<Senpai*>(p)) {
    if (arg == "limit_min_bytes") VFX(x, p_->limit_min_bytes_);
    if (arg == "limit_max_bytes") VFX(x, p_->limit_max_bytes_);
    if (arg == "interval") VFX(x, p_->interval_);
    if (arg == "pressure_ms") VFX(x, p_->pressure_ms_.count());
    if (arg == "pressure_pct") VFX(x, p_->mem_pressure_pct_);
    if (arg == "io_pressure_pct") VFX(x, p_->io_pressure_pct_);
    if (arg == "max_probe") VFX(x, p_->max_probe_);
    if (arg == "max_backoff") VFX(x, p_->max_backoff_);
    if (arg == "coeff_probe") VFX(x, p_->coeff_probe_);
    if (arg == "coeff_backoff") VFX(x, p_->coeff_backoff_);
    if (arg == "immediate_backoff") VFX(x, p_->immediate_backoff_);
    if (arg == "memory_high_timeout_ms") VFX(x, p_->memory_high_timeout_.count());
    if (arg == "swap_threshold") VFX(x, p_->swap_threshold_);
    if (arg == "swapout_bps_threshold") VFX(x, p_->swapout_bps_threshold_);
    if (arg == "swap_validation") VFX(x, p_->swap_validation_);
    if (arg == "modulate_swappiness") VFX(x, p_->modulate_swappiness_);
    if (arg == "log_interval") VFX(x, p_->log_interval_);
  }
  (void)plugin;
  return NAN;
}

// ------------------------------------------------------------------------------------------
struct LoadResult {
  bool accepted = false;
  bool threw = false;
  std::string exc, frames;
  std::unique_ptr<Oomd::Config2::IR::Root> ir;
  std::unique_ptr<Oomd::Engine::Engine> engine;
};

// start-up path: Main.cpp's parseConfig (file -> IR) + compile
LoadResult loadStartup(const std::string& text) {
  LoadResult r;
  std::string path = vb::root + "/conf.json";
  vb::rawWrite(path, text);
  try {
    r.ir = parseConfig(path);
    if (!r.ir) return r;
    Oomd::PluginConstructionContext cctx(world::cgfs());
    r.engine = Oomd::Config2::compile(*r.ir, cctx);
    r.accepted = r.engine != nullptr;
  } catch (const std::exception& e) {
    r.threw = true;
    int st;
    char* dm = abi::__cxa_demangle(typeid(e).name(), nullptr, nullptr, &st);
    r.exc = std::string(dm ? dm : typeid(e).name()) + ": " + e.what();
    free(dm);
    r.frames = vb::lastThrowFrames();
  } catch (...) {
    r.threw = true;
    r.exc = "unknown exception";
    r.frames = vb::lastThrowFrames();
  }
  return r;
}
LoadResult compileIR(const Oomd::Config2::IR::Root& ir) {
  LoadResult r;
  try {
    Oomd::PluginConstructionContext cctx(world::cgfs());
    r.engine = Oomd::Config2::compile(ir, cctx);
    r.accepted = r.engine != nullptr;
  } catch (const std::exception& e) {
    r.threw = true;
    int st;
    char* dm = abi::__cxa_demangle(typeid(e).name(), nullptr, nullptr, &st);
    r.exc = std::string(dm ? dm : typeid(e).name()) + ": " + e.what();
    free(dm);
    r.frames = vb::lastThrowFrames();
  }
  return r;
}

// run-time path: a drop-in file's text arriving at the adaptor (FsDropInService::processDropInAdd's steps)
struct Adaptor : Oomd::DropInServiceAdaptor {
  using Oomd::DropInServiceAdaptor::DropInServiceAdaptor;
  std::vector<std::string> results;
  void tick() override {}
  void handleDropInAddResult(const std::string& t, bool ok) override { results.push_back(t + (ok ? ":ok" : ":fail")); }
  void handleDropInRemoveResult(const std::string& t, bool) override { results.push_back(t + ":rm"); }
  using Oomd::DropInServiceAdaptor::scheduleDropInAdd;
};

// canonical rendering of the engine's private bookkeeping ("" if a refactoring made it unreadable: the unchanged-engine check
// is then skipped instead of breaking the harness build)
std::string engineCanon(Oomd::Engine::Engine& eng) {
  std::ostringstream o;
  [&](auto& e) {
    if constexpr (requires { e.rulesets_.begin()->ruleset->name_; e.rulesets_.begin()->dropins.begin()->tag; e.rulesets_.begin()->ruleset->enabled_; e.rulesets_.begin()->ruleset->numTargeted_; e.prekill_hooks_in_reverse_order_.size(); }) {
      for (auto& b : e.rulesets_) {
        o << b.ruleset->name_ << "[";
        for (auto& d : b.dropins) o << d.tag << ",";
        o << (b.ruleset->enabled_ ? "E" : "D") << b.ruleset->numTargeted_ << "]";
      }
      o << "hooks=" << e.prekill_hooks_in_reverse_order_.size();
    }
  }(eng);
  return o.str();
}
// first action / first detector of the first ruleset (nullptr if not reachable any more)
Oomd::Engine::BasePlugin* firstPlugin(Oomd::Engine::Engine& eng, bool action) {
  Oomd::Engine::BasePlugin* p = nullptr;
  [&](auto& e) {
    if constexpr (requires { e.rulesets_[0].ruleset->action_group_[0].get(); e.rulesets_[0].ruleset->detector_groups_[0]->detectors_[0].get(); }) {
      auto& rs = *e.rulesets_[0].ruleset;
      p = action ? rs.action_group_[0].get() : rs.detector_groups_[0]->detectors_[0].get();
    }
  }(eng);
  return p;
}

const char* kBaseForDropIn =
    "{\"rulesets\":[{\"name\":\"R1\",\"drop-in\":{\"detectors\":true,\"actions\":true},\"detectors\":[[\"g\",{\"name\":\"continue\",\"args\":{}}]],"
    "\"actions\":[{\"name\":\"continue\",\"args\":{}}]}]}";

struct DropInOutcome {
  bool accepted = false, threw = false, engineChanged = false;
  std::string exc, frames;
};
DropInOutcome loadDropIn(const std::string& text) {
  DropInOutcome out;
  std::string err;
  auto o = sim::make(kBaseForDropIn, &err, 5);
  if (!o) {
    out.threw = true;
    out.exc = "harness: base rejected";
    return out;
  }
  Adaptor ad(world::cgfs(), *sim::lastIr, *sim::lastEngine);
  std::string before = engineCanon(*sim::lastEngine);
  try {
    // same steps as FsDropInService::processDropInAdd after reading the file
    Oomd::Config2::JsonConfigParser p;
    std::unique_ptr<Oomd::Config2::IR::Root> root;
    bool parsed = true;
    try {
      root = p.parse(text);
    } catch (const std::exception&) {
      parsed = false;  // the service catches std::exception around parse()
    }
    if (parsed && root) {
      bool ok = ad.scheduleDropInAdd("T", *root);
      ad.updateDropIns();
      out.accepted = ok;
    }
  } catch (const std::exception& e) {
    out.threw = true;
    int st;
    char* dm = abi::__cxa_demangle(typeid(e).name(), nullptr, nullptr, &st);
    out.exc = std::string(dm ? dm : typeid(e).name()) + ": " + e.what();
    free(dm);
    out.frames = vb::lastThrowFrames();
  }
  out.engineChanged = engineCanon(*sim::lastEngine) != before;
  return out;
}

// ------------------------------------------------------------------------------------------
struct Item {
  char kind;  // N numbers, I ir deviations, R ruleset-level fields, J json shapes, T truncations
  size_t a, b;
};

struct IrCase {
  std::string desc;
  int plugin;
  std::map<std::string, std::string> args;
  bool expectAccept;
  std::string cls;      // signature class when the verdict is wrong
  std::string checkArg; // arg whose parsed value is verified (valid samples)
  Ty checkTy = T_STR;
  std::string bareArg;  // this argument is written as a bare JSON number
};

struct C12 : vr::Driver {
  std::vector<Item> items;
  std::vector<std::string> numStrings;
  size_t nEnumerated = 0;  // numStrings[0..nEnumerated) is the exhaustive part, the rest the boundary list
  std::vector<IrCase> irCases;
  std::vector<std::pair<std::string, std::string>> jsonDocs;  // (description, text)
  std::vector<int> jsonMustReject;                            // 1 must reject, 0 open, 2 must accept
  std::string tier_;
  int lenN = 5;
  std::string id() override { return "C12"; }

  // `bareArg`: that argument's value is written as a bare JSON number instead of a string (both spellings are accepted)
  static std::string pluginJson(const std::string& name, const std::map<std::string, std::string>& args, const std::string& bareArg = "") {
    std::string j = "{\"name\":\"" + name + "\",\"args\":{";
    bool first = true;
    for (auto& kv : args) {
      j += std::string(first ? "" : ",") + "\"" + kv.first + "\":" + (kv.first == bareArg ? kv.second : "\"" + kv.second + "\"");
      first = false;
    }
    return j + "}}";
  }
  static std::string docFor(const PluginSpec& ps, const std::map<std::string, std::string>& args, bool dropin,
                            const std::string& rulesetExtra = "", const std::string& bareArg = "") {
    std::string pj = pluginJson(ps.name, args, bareArg), cont = "{\"name\":\"continue\",\"args\":{}}";
    std::string rs = "{\"name\":\"R1\"" + rulesetExtra + ",\"detectors\":[[\"g1\"," + (ps.action ? cont : pj) + "]],\"actions\":[" +
                     (ps.action ? pj : cont) + "]}";
    (void)dropin;
    return "{\"rulesets\":[" + rs + "]}";
  }

  void buildIrCases() {
    auto& S = specs();
    for (size_t pi = 0; pi < S.size(); pi++) {
      auto& ps = S[pi];
      std::map<std::string, std::string> base;
      for (auto& a : ps.args)
        if (*a.baseline || a.required) base[a.name] = a.baseline;
      irCases.push_back({std::string(ps.name) + ": baseline all-valid", (int)pi, base, true, "rejected-valid:baseline", "", T_STR});
      if (ps.acceptsAnything) continue;
      {
        auto m = base;
        m["no_such_arg"] = "1";
        irCases.push_back({std::string(ps.name) + ": unknown argument", (int)pi, m, false, "accepted-invalid:unknown-arg", "", T_STR});
      }
      for (auto& a : ps.args) {
        if (a.required) {
          auto m = base;
          m.erase(a.name);
          irCases.push_back({std::string(ps.name) + ": required '" + a.name + "' missing", (int)pi, m, false, "accepted-invalid:required-missing", "", T_STR});
        }
        for (auto& smp : samplesFor(a.ty)) {
          auto m = base;
          m[a.name] = smp.text;
          IrCase c{std::string(ps.name) + ": " + a.name + "='" + smp.text + "'", (int)pi, m, smp.valid,
                   smp.valid ? std::string("rejected-valid:") + a.name : std::string("accepted-invalid:") + smp.cls, smp.valid ? a.name : "", a.ty};
          irCases.push_back(c);
          // the same valid number as a bare JSON number
          bool numeric = a.ty == T_INT || a.ty == T_UINT || a.ty == T_INT64 || a.ty == T_DOUBLE || a.ty == T_FLOAT || a.ty == T_MS || a.ty == T_PCTILE;
          std::string st = smp.text;
          bool jsonNumber = !st.empty() && st.find_first_not_of("0123456789.-") == std::string::npos && isdigit((unsigned char)st.back());
          if (smp.valid && numeric && jsonNumber) {
            IrCase cb = c;
            cb.desc += " (bare JSON number)";
            cb.bareArg = a.name;
            irCases.push_back(cb);
          }
        }
        if (a.ty != T_STR && a.ty != T_CGROUP) {
          auto m = base;
          m[a.name] = "";
          irCases.push_back({std::string(ps.name) + ": " + a.name + "='' (empty)", (int)pi, m, false, "accepted-invalid:empty", "", a.ty});
        }
      }
    }
  }

  void buildJsonDocs() {
    const char* maximal =
        "{\"rulesets\":[{\"name\":\"R1\",\"drop-in\":{\"detectors\":true,\"actions\":true,\"disable-on-drop-in\":false},"
        "\"silence-logs\":\"engine,plugins\",\"post_action_delay\":\"10\",\"prekill_hook_timeout\":\"3\",\"cgroup\":\"a/*\","
        "\"xattr_filter\":\"user.x\",\"detectors\":[[\"g1\",{\"name\":\"pressure_above\",\"args\":{\"cgroup\":\"a\",\"resource\":\"memory\","
        "\"threshold\":\"80\",\"duration\":\"30\"}},{\"name\":\"exists\",\"args\":{\"cgroup\":\"a\",\"negate\":true}}],[\"g2\",{\"name\":\"swap_free\","
        "\"args\":{\"threshold_pct\":15}}]],\"actions\":[{\"name\":\"kill_by_swap_usage\",\"args\":{\"cgroup\":\"a/*\",\"threshold\":\"20%\","
        "\"dry\":\"true\"}},{\"name\":\"continue\",\"args\":{}}]}],\"prekill_hooks\":[{\"name\":\"dummy_prekill_hook\",\"args\":{\"cgroup\":\"a\"}}]}";
    Json::Value root;
    Json::CharReaderBuilder rb;
    std::string errs;
    std::istringstream is(maximal);
    Json::parseFromStream(rb, is, &root, &errs);
    Json::StreamWriterBuilder wb;
    wb["indentation"] = "";
    auto dump = [&](const Json::Value& v) { return Json::writeString(wb, v); };
    jsonDocs.push_back({"maximal valid document", dump(root)});
    jsonMustReject.push_back(2);
    // every node position x alien shape
    std::vector<std::pair<std::string, Json::Value>> aliens;
    auto parse = [&](const char* t) {
      Json::Value v;
      std::istringstream s(t);
      Json::parseFromStream(rb, s, &v, &errs);
      return v;
    };
    for (const char* a : {"null", "true", "0", "1.5", "\"\"", "\"s\"", "[]", "[1]", "{}", "{\"a\":1}"}) aliens.push_back({a, parse(a)});
    struct Pos {
      std::vector<std::string> path;  // keys / "#idx"
    };
    std::vector<Pos> positions;
    std::function<void(const Json::Value&, std::vector<std::string>&)> walk = [&](const Json::Value& v, std::vector<std::string>& path) {
      if (!path.empty()) positions.push_back({path});
      if (v.isObject())
        for (auto& k : v.getMemberNames()) {
          path.push_back(k);
          walk(v[k], path);
          path.pop_back();
        }
      if (v.isArray())
        for (Json::ArrayIndex i = 0; i < v.size(); i++) {
          path.push_back("#" + std::to_string(i));
          walk(v[i], path);
          path.pop_back();
        }
    };
    std::vector<std::string> path;
    walk(root, path);
    auto at = [&](Json::Value& r, const std::vector<std::string>& p, size_t upto) -> Json::Value* {
      Json::Value* cur = &r;
      for (size_t i = 0; i < upto; i++) cur = p[i][0] == '#' ? &(*cur)[(Json::ArrayIndex)atoi(p[i].c_str() + 1)] : &(*cur)[p[i]];
      return cur;
    };
    for (auto& pos : positions) {
      std::string ps;
      for (auto& k : pos.path) ps += "/" + k;
      const std::string& last = pos.path.back();
      bool isName = last == "name";
      bool isArgValue = pos.path.size() >= 2 && pos.path[pos.path.size() - 2] == "args";
      bool isGroupName = pos.path.size() >= 2 && last == "#0" && pos.path[pos.path.size() - 2][0] == '#' && ps.find("/detectors/") != std::string::npos && pos.path.size() == 5;
      for (auto& al : aliens) {
        Json::Value copy = root;
        *at(copy, pos.path, pos.path.size()) = al.second;
        int verdict = 0;
        bool scalar = al.second.isString() || al.second.isNumeric() || al.second.isBool();
        if (isName && !(al.second.isString() && al.second.asString() == "s")) verdict = 1;  // names must be non-empty strings
        // ... except that a RULESET name given as a bare scalar (true, 0, 1.5) is read as its text by the JSON layer; the
        // statement only demands that the ruleset "is named", so that case is left open
        if (isName && ps == "/rulesets/#0/name" && (al.second.isBool() || al.second.isNumeric())) verdict = 0;
        if (isName && al.second.isString() && al.second.asString() == "s" && ps.find("/rulesets/#0/name") == std::string::npos) verdict = 1;  // unknown plugin "s"
        if (isArgValue && !scalar) verdict = 1;                                              // value without a reading
        if (isGroupName && !al.second.isString()) verdict = 1;
        if (isGroupName && al.second.isString() && al.second.asString().empty()) verdict = 1;
        jsonDocs.push_back({"at " + ps + " <- " + al.first, dump(copy)});
        jsonMustReject.push_back(verdict);
      }
      // key deleted
      Json::Value copy = root;
      Json::Value* parent = at(copy, pos.path, pos.path.size() - 1);
      if (last[0] == '#') {
        Json::Value removed;
        parent->removeIndex((Json::ArrayIndex)atoi(last.c_str() + 1), &removed);
      } else {
        parent->removeMember(last);
      }
      int verdict = 0;
      if (isName) verdict = 1;
      if (ps == "/rulesets/#0/detectors" || ps == "/rulesets/#0/actions") verdict = 1;
      jsonDocs.push_back({"at " + ps + " deleted", dump(copy)});
      jsonMustReject.push_back(verdict);
    }
  }
  std::string maximalText;

  void configure(const std::string& tier, uint64_t) override {
    tier_ = tier;
    bool th = tier == "thorough";
    lenN = th ? 6 : 5;
    const std::string alpha = "0159.e-+kMGt% naifx";
    numStrings = {""};
    size_t b = 0;
    for (int l = 1; l <= lenN; l++) {
      size_t e = numStrings.size();
      for (size_t i = b; i < e; i++)
        for (char c : alpha) numStrings.push_back(numStrings[i] + c);
      b = e;
    }
    // boundary spellings that short strings cannot reach: values around 2^31, 2^32, 2^53, 2^63, 2^64 and 10^18..10^20 with
    // either sign and every suffix class (the same oracle applies; listed last so the exhaustive part stays first)
    {
      nEnumerated = numStrings.size();
      const char* bases[] = {"2147483647", "2147483648", "2147483649", "4294967295", "4294967296", "4294967297", "9007199254740993",
                             "9223372036854775807", "9223372036854775808", "9223372036854775809", "18446744073709551615", "18446744073709551616",
                             "1000000000000000000", "10000000000000000000", "100000000000000000000", "8796093022207", "8796093022208"};
      const char* signs[] = {"", "-"};
      const char* sufs[] = {"", ".0", ".5", "K", "M", "G", "T", "%", "e0", "x", "0"};
      for (auto bs : bases)
        for (auto sg : signs)
          for (auto sf : sufs) numStrings.push_back(std::string(sg) + bs + sf);
      // multi-component sizes whose SUM crosses 2^63 / 2^64 although every component fits
      const char* multi[] = {"8388607T 1T", "8388607T 1023G 1023M 1023K 1023", "8388607T 1023G 1023M 1023K 1024", "4194304T 4194304T", "4194303T 4194304T",
                             "8388608T 8388608T", "16777215T 1T 512M", "16777215T 1T", "8388607T 8388607T 2T", "9223372036854775807 1", "9223372036854775806 1",
                             "4611686018427387904 4611686018427387904", "4611686018427387904 4611686018427387903", "18446744073709551615 1", "1 18446744073709551615",
                             "8191P", "7E", "8388607.5T", "8388607.999999T 1G", "1T 1T 1T 1T 1T 1T 1T 1T", "0.5K 0.5K", "1K1", "1K 1", "1 1K"};
      for (auto m : multi) numStrings.push_back(m);
    }
    buildIrCases();
    buildJsonDocs();
    maximalText = jsonDocs[0].second;
    const size_t chunkN = 20000;
    for (size_t i = 0; i < numStrings.size(); i += chunkN) items.push_back({'N', i, std::min(numStrings.size(), i + chunkN)});
    for (size_t i = 0; i < irCases.size(); i += 10) items.push_back({'I', i, std::min(irCases.size(), i + 10)});
    items.push_back({'R', 0, 1});
    for (size_t i = 0; i < jsonDocs.size(); i += 25) items.push_back({'J', i, std::min(jsonDocs.size(), i + 25)});
    for (size_t i = 0; i < maximalText.size(); i += 40) items.push_back({'T', i, std::min(maximalText.size(), i + 40)});
  }
  size_t count() override { return items.size(); }
  std::string describe(size_t i) override {
    auto& it = items[i];
    switch (it.kind) {
      case 'N': return "number/size strings #" + std::to_string(it.a) + ".." + std::to_string(it.b) + " of all strings len<=" + std::to_string(lenN) + " over '0159.e-+kMGt% naifx' followed by 398 boundary spellings (2^31, 2^32, 2^53, 2^63, 2^64, 10^18..10^20 +-1, both signs, 11 suffixes), e.g. '" + numStrings[it.a] + "'";
      case 'I': return "IR cases #" + std::to_string(it.a) + ".." + std::to_string(it.b) + ", e.g. " + irCases[it.a].desc;
      case 'R': return "ruleset-level fields (post_action_delay, prekill_hook_timeout, silence-logs, names, empty groups)";
      case 'J': return "JSON documents #" + std::to_string(it.a) + ".." + std::to_string(it.b) + ", e.g. " + jsonDocs[it.a].first;
      case 'T': return "truncations / single-byte deletions of the maximal document, byte positions " + std::to_string(it.a) + ".." + std::to_string(it.b);
    }
    return "";
  }
  std::string klass(size_t i) override { return std::string(1, items[i].kind); }
  void workerInit() override { sim::processInit(); }

  // ---- N ---------------------------------------------------------------------------------
  void runNumbers(const Item& it, vr::Result& r) {
    std::set<std::string> reported;
    size_t nontrivial = 0;
    const long long totals[] = {0, (1LL << 31) + 1, 1LL << 40};
    auto report = [&](const std::string& sig, const std::string& text) {
      if (reported.insert(sig).second) r.violate(sig, text);
    };
    for (size_t i = it.a; i < it.b; i++) {
      const std::string& s = numStrings[i];
      vr::note("number string '" + s + "'");
      // parseSize: only value exactness / UB (its emptiness and sign handling is not config-facing)
      {
        int64_t out = -12345;
        int rc = Oomd::Util::parseSize(s, &out);
        auto v = rn::refSize(s);
        if (rc == 0 && v.kind == rn::ACCEPT && ((i128)out < v.lo || (i128)out > v.hi))
          report("C12|numbers|wrong-value:parseSize", "parseSize('" + s + "') = " + std::to_string(out) + " expected " + i128str(v.lo) + ".." + i128str(v.hi));
        if (rc == 0 && v.kind == rn::REJECT && std::string(v.why) != "empty")
          report(std::string("C12|numbers|accepted-invalid:parseSize:") + v.why, "parseSize('" + s + "') accepted as " + std::to_string(out) + " (" + v.why + ")");
        if (rc != 0 && v.kind == rn::ACCEPT) report("C12|numbers|rejected-valid:parseSize", "parseSize('" + s + "') rejected; exact value " + i128str(v.lo));
      }
      for (long long total : totals) {
        int64_t out = -12345;
        int rc = Oomd::Util::parseSizeOrPercent(s, &out, total);
        auto v = rn::refSizeOrPercent(s, total);
        if (v.kind == rn::ACCEPT) nontrivial++;
        if (rc == 0 && v.kind == rn::ACCEPT && ((i128)out < v.lo || (i128)out > v.hi))
          report("C12|numbers|wrong-value:parseSizeOrPercent", "parseSizeOrPercent('" + s + "', total=" + std::to_string(total) + ") = " + std::to_string(out) + " expected " + i128str(v.lo) + ".." + i128str(v.hi));
        if (rc == 0 && v.kind == rn::REJECT)
          report(std::string("C12|numbers|accepted-invalid:parseSizeOrPercent:") + v.why, "parseSizeOrPercent('" + s + "') accepted as " + std::to_string(out) + " (" + v.why + ")");
        if (rc != 0 && v.kind == rn::ACCEPT)
          report("C12|numbers|rejected-valid:parseSizeOrPercent", "parseSizeOrPercent('" + s + "', total=" + std::to_string(total) + ") rejected; exact value " + i128str(v.lo));
      }
      // typed plugin arguments
      auto intLike = [&](const char* fn, auto parse, i128 mn, i128 mx, bool neg) {
        bool ok = true;
        long long got = 0;
        try {
          got = (long long)parse(s);
        } catch (const std::exception&) {
          ok = false;
        }
        auto v = rn::refInt(s, mn, mx, neg);
        if (ok && v.kind == rn::REJECT) report(std::string("C12|numbers|accepted-invalid:") + fn + ":" + v.why, std::string(fn) + "('" + s + "') accepted as " + std::to_string(got) + " (" + v.why + ")");
        if (!ok && v.kind == rn::ACCEPT) report(std::string("C12|numbers|rejected-valid:") + fn, std::string(fn) + "('" + s + "') rejected");
        if (ok && v.kind == rn::ACCEPT && (i128)got != v.lo) report(std::string("C12|numbers|wrong-value:") + fn, std::string(fn) + "('" + s + "') = " + std::to_string(got));
      };
      intLike("parseValue<int>", [](const std::string& x) { return Oomd::PluginArgParser::parseValue<int>(x); }, -(((i128)1) << 31), (((i128)1) << 31) - 1, true);
      intLike("parseValue<int64_t>", [](const std::string& x) { return Oomd::PluginArgParser::parseValue<int64_t>(x); }, -rn::kI63, rn::kI63 - 1, true);
      intLike("parseUnsignedInt", [](const std::string& x) { return Oomd::PluginArgParser::parseUnsignedInt(x); }, 0, (((i128)1) << 31) - 1, false);
      intLike("parseValue<milliseconds>", [](const std::string& x) { return Oomd::PluginArgParser::parseValue<std::chrono::milliseconds>(x).count(); }, -rn::kI63, rn::kI63 - 1, true);
      auto floatLike = [&](const char* fn, auto parse, long double tol) {
        bool ok = true;
        long double got = 0;
        try {
          got = parse(s);
        } catch (const std::exception&) {
          ok = false;
        }
        auto v = rn::refFloat(s);
        if (ok && v.kind == rn::REJECT) report(std::string("C12|numbers|accepted-invalid:") + fn + ":" + v.why, std::string(fn) + "('" + s + "') accepted as " + std::to_string((double)got) + " (" + v.why + ")");
        if (!ok && v.kind == rn::ACCEPT) report(std::string("C12|numbers|rejected-valid:") + fn, std::string(fn) + "('" + s + "') rejected");
        if (ok && v.kind == rn::ACCEPT && std::fabs(got - v.value) > tol * std::max<long double>(1, std::fabs(v.value)))
          report(std::string("C12|numbers|wrong-value:") + fn, std::string(fn) + "('" + s + "') = " + std::to_string((double)got));
      };
      floatLike("parseValue<double>", [](const std::string& x) { return (long double)Oomd::PluginArgParser::parseValue<double>(x); }, 1e-12L);
      floatLike("parseValue<float>", [](const std::string& x) { return (long double)Oomd::PluginArgParser::parseValue<float>(x); }, 1e-6L);
      {
        bool ok = true, got = false;
        try {
          got = Oomd::PluginArgParser::parseValue<bool>(s);
        } catch (const std::exception&) {
          ok = false;
        }
        bool t = s == "1", f = s == "0";
        if (ok != (t || f) || (ok && got != t)) report("C12|numbers|bool", "parseValue<bool>('" + s + "')");
      }
    }
    vr::note("");
    r.evals = (it.b - it.a) * 11;
    r.counters["number_strings"] += (long long)(it.b - it.a);
    r.counters["number_strings_with_valid_reading"] += (long long)nontrivial;
    r.nontrivial("N" + std::to_string(it.a) + ":" + std::to_string(nontrivial));
    r.nontrivial("N'" + std::to_string(it.a));
  }

  // ---- I ---------------------------------------------------------------------------------
  void runIr(const Item& it, vr::Result& r) {
    world::reset();
    world::mkcg("a");
    const long long memTotal = 16777216LL * 1024, swapTotal = 2097152LL * 1024;
    for (size_t i = it.a; i < it.b; i++) {
      const IrCase& c = irCases[i];
      const PluginSpec& ps = specs()[c.plugin];
      vr::note("IR case " + c.desc);
      std::string doc = docFor(ps, c.args, false, "", c.bareArg);
      for (int path = 0; path < 2; path++) {
        bool accepted, threw;
        std::string exc, frames;
        Oomd::Engine::BasePlugin* plugin = nullptr;
        LoadResult lr;
        if (path == 0) {
          lr = loadStartup(doc);
          accepted = lr.accepted;
          threw = lr.threw;
          exc = lr.exc;
          frames = lr.frames;
          if (lr.engine) {
            plugin = firstPlugin(*lr.engine, ps.action);
          }
        } else {
          auto d = loadDropIn(doc);
          accepted = d.accepted;
          threw = d.threw;
          exc = d.exc;
          frames = d.frames;
          if (!d.accepted && d.engineChanged && !d.threw)
            r.violate("C12|ir|dropin-rejected-but-engine-changed", c.desc + "\n" + doc);
        }
        const char* pn = path == 0 ? "startup" : "dropin";
        if (threw) {
          r.violate(std::string("C12|ir|uncaught:") + pn + ":" + exc.substr(0, exc.find(':')), c.desc + " via " + pn + " path\n" + exc + "\n" + frames + "\n" + doc);
          continue;
        }
        if (accepted != c.expectAccept)
          r.violate(std::string("C12|ir|") + c.cls, c.desc + " via " + pn + " path: " + (accepted ? "ACCEPTED" : "REJECTED") + " but must be " + (c.expectAccept ? "accepted" : "rejected") + "\n" + doc);
        if (accepted && c.expectAccept && plugin) {
          // precisely the given arguments
          auto given = plugin->getPluginArgs();
          std::map<std::string, std::string> g(given.begin(), given.end());
          auto want = c.args;
          if (!c.bareArg.empty() && g.count(c.bareArg) && want.count(c.bareArg)) {
            // a bare JSON number reaches the plugin in whatever spelling the JSON layer prints; it must denote the SAME number
            // (same nearest double), the spelling itself is free
            char* e1 = nullptr;
            char* e2 = nullptr;
            double a = strtod(g[c.bareArg].c_str(), &e1), b = strtod(want[c.bareArg].c_str(), &e2);
            if (*e1 == 0 && *e2 == 0 && a == b) g[c.bareArg] = want[c.bareArg];
          }
          if (g != want) r.violate("C12|ir|args-not-as-given", c.desc + ": plugin was initialised with different arguments than configured");
          // exact parsed values
          for (auto& kv : c.args) {
            Ty ty = T_STR;
            for (auto& a : ps.args)
              if (kv.first == a.name) ty = a.ty;
            if (ty == T_STR || ty == T_CGROUP || ty == T_RES) continue;
            long double got = fieldOf(plugin, ps.name, kv.first);
            if (std::isnan(got)) continue;
            bool swapBased = std::string(ps.name) == "kill_by_swap_usage";
            long double want = exactValue(ty == T_PCTILE ? T_INT : ty, kv.second, memTotal, swapTotal, swapBased);
            long double tol = 0;  // also for fractional arguments: the held value is the nearest double / float of the written number
            if (std::fabs(got - want) > tol * std::max<long double>(1, std::fabs(want)) + (ty == T_SIZEPCT && kv.second.find('.') != std::string::npos ? 1 : 0))
              r.violate(std::string("C12|ir|value-not-honoured:") + ps.name + ":" + kv.first,
                        c.desc + ": argument " + kv.first + "='" + kv.second + "' is held as " + std::to_string((double)got) + " expected " + std::to_string((double)want));
          }
        }
      }
      r.nontrivial(c.desc);
    }
    vr::note("");
    r.evals = (it.b - it.a) * 2;
  }

  // ---- R ---------------------------------------------------------------------------------
  void runRulesetFields(vr::Result& r) {
    world::reset();
    struct F {
      std::string extra;
      bool valid;
      std::string cls;
    };
    std::vector<F> fs;
    for (const char* key : {"post_action_delay", "prekill_hook_timeout"}) {
      for (const char* v : {"0", "15", "300"}) fs.push_back({std::string(",\"") + key + "\":\"" + v + "\"", true, std::string("rejected-valid:") + key});
      for (auto v : std::vector<std::pair<const char*, const char*>>{{"x", "garbage"}, {"-1", "negative"}, {"1.5", "fraction-for-integer"}, {"3s", "trailing-garbage"}, {"99999999999", "out-of-range"}})
        fs.push_back({std::string(",\"") + key + "\":\"" + v.first + "\"", false, std::string("accepted-invalid:") + key + ":" + v.second});
    }
    for (const char* v : {"engine", "plugins", "engine,plugins", " engine , plugins "}) fs.push_back({std::string(",\"silence-logs\":\"") + v + "\"", true, "rejected-valid:silence-logs"});
    for (const char* v : {"foo", "engine,foo"}) fs.push_back({std::string(",\"silence-logs\":\"") + v + "\"", false, "accepted-invalid:silence-logs"});
    PluginSpec cont{"continue", true, {}, true};
    for (auto& f : fs) {
      std::string doc = docFor(cont, {}, false, f.extra);
      vr::note("ruleset field " + f.extra);
      for (int path = 0; path < 2; path++) {
        bool accepted, threw;
        std::string exc, frames;
        if (path == 0) {
          auto lr = loadStartup(doc);
          accepted = lr.accepted;
          threw = lr.threw;
          exc = lr.exc;
          frames = lr.frames;
        } else {
          auto d = loadDropIn(doc);
          accepted = d.accepted;
          threw = d.threw;
          exc = d.exc;
          frames = d.frames;
        }
        const char* pn = path == 0 ? "startup" : "dropin";
        if (threw) {
          r.violate(std::string("C12|ruleset-field|uncaught:") + pn + ":" + exc.substr(0, exc.find(':')), "ruleset field " + f.extra + " via " + pn + "\n" + exc + "\n" + frames);
          continue;
        }
        if (accepted != f.valid) r.violate("C12|ruleset-field|" + f.cls, "ruleset field " + f.extra + " via " + pn + ": " + (accepted ? "ACCEPTED" : "REJECTED"));
      }
      r.nontrivial(f.extra);
    }
    // structural: names and emptiness (IR level, compile())
    using namespace Oomd::Config2::IR;
    auto mk = [] {
      Root root;
      Ruleset rs;
      rs.name = "R";
      DetectorGroup dg;
      dg.name = "g";
      Detector d;
      d.name = "continue";
      dg.detectors.push_back(d);
      rs.dgs.push_back(dg);
      Action a;
      a.name = "continue";
      rs.acts.push_back(a);
      root.rulesets.push_back(rs);
      return root;
    };
    struct S {
      const char* what;
      std::function<void(Root&)> mut;
    };
    std::vector<S> ss = {{"ruleset without name", [](Root& x) { x.rulesets[0].name = ""; }},
                         {"group without name", [](Root& x) { x.rulesets[0].dgs[0].name = ""; }},
                         {"group without detectors", [](Root& x) { x.rulesets[0].dgs[0].detectors.clear(); }},
                         {"plugin without name", [](Root& x) { x.rulesets[0].acts[0].name = ""; }},
                         {"unknown plugin", [](Root& x) { x.rulesets[0].acts[0].name = "nope"; }},
                         {"no detector groups", [](Root& x) { x.rulesets[0].dgs.clear(); }},
                         {"no actions", [](Root& x) { x.rulesets[0].acts.clear(); }},
                         {"unknown prekill hook", [](Root& x) { PrekillHook h; h.name = "nope"; x.prekill_hooks.push_back(h); }}};
    {
      auto ok = compileIR(mk());
      if (!ok.accepted) r.violate("C12|ir|rejected-valid:minimal", "minimal valid IR rejected");
    }
    for (auto& s : ss) {
      Root x = mk();
      s.mut(x);
      auto lr = compileIR(x);
      if (lr.threw) r.violate("C12|ir|uncaught:startup:" + lr.exc.substr(0, lr.exc.find(':')), std::string(s.what) + "\n" + lr.exc);
      else if (lr.accepted) r.violate(std::string("C12|ir|accepted-invalid:structure"), std::string(s.what) + " was accepted");
      r.nontrivial(s.what);
    }
    r.evals = fs.size() * 2 + ss.size() + 1;
    vr::note("");
  }

  // ---- J / T -----------------------------------------------------------------------------
  void loadBoth(const std::string& desc, const std::string& text, int verdict, vr::Result& r) {
    vr::note("JSON " + desc);
    for (int path = 0; path < 2; path++) {
      bool accepted, threw;
      std::string exc, frames;
      if (path == 0) {
        auto lr = loadStartup(text);
        accepted = lr.accepted;
        threw = lr.threw;
        exc = lr.exc;
        frames = lr.frames;
      } else {
        // the drop-in variant needs the base ruleset's name: our documents use R1 as well
        auto d = loadDropIn(text);
        accepted = d.accepted;
        threw = d.threw;
        exc = d.exc;
        frames = d.frames;
        if (!d.accepted && d.engineChanged && !d.threw) r.violate("C12|json|dropin-rejected-but-engine-changed", desc);
      }
      const char* pn = path == 0 ? "startup" : "dropin";
      if (threw) {
        std::string ty = exc.substr(0, exc.find(':'));
        r.violate(std::string("C12|json|uncaught:") + pn + ":" + ty, desc + " via " + pn + " path\n" + exc + "\n" + frames + "\n" + text.substr(0, 600));
        continue;
      }
      // a drop-in may omit detectors and/or actions
      if (path == 1 && verdict == 1 && (desc == "at /rulesets/#0/detectors deleted" || desc == "at /rulesets/#0/actions deleted")) continue;
      if (verdict == 1 && accepted) r.violate(std::string("C12|json|accepted-invalid:") + (desc.find("/args/") != std::string::npos ? "non-scalar-arg" : "structure"), desc + " via " + pn + " path was ACCEPTED\n" + text.substr(0, 600));
      if (verdict == 2 && !accepted && path == 0) r.violate("C12|json|rejected-valid", desc + " via " + pn + " path was rejected");
    }
  }
  void runJson(const Item& it, vr::Result& r) {
    world::reset();
    world::mkcg("a");
    for (size_t i = it.a; i < it.b; i++) {
      loadBoth(jsonDocs[i].first, jsonDocs[i].second, jsonMustReject[i], r);
      r.nontrivial(jsonDocs[i].first);
    }
    r.evals = (it.b - it.a) * 2;
    vr::note("");
  }
  void runTrunc(const Item& it, vr::Result& r) {
    world::reset();
    world::mkcg("a");
    for (size_t i = it.a; i < it.b; i++) {
      loadBoth("prefix of " + std::to_string(i) + " bytes", maximalText.substr(0, i), 1, r);
      std::string del = maximalText;
      del.erase(i, 1);
      loadBoth("byte " + std::to_string(i) + " ('" + maximalText.substr(i, 1) + "') deleted", del, 0, r);
      r.nontrivial("T" + std::to_string(i));
    }
    r.evals = (it.b - it.a) * 4;
    vr::note("");
  }

  void run(size_t idx, vr::Result& r, bool) override {
    const Item& it = items[idx];
    if (it.kind == 'N') runNumbers(it, r);
    if (it.kind == 'I') runIr(it, r);
    if (it.kind == 'R') runRulesetFields(r);
    if (it.kind == 'J') runJson(it, r);
    if (it.kind == 'T') runTrunc(it, r);
  }
  std::string rule() override {
    return "N: every string of length <= L over {0 1 5 9 . e - + k M G t % blank n a i f x} through Util::parseSize, "
           "Util::parseSizeOrPercent (totals 0, 2^31+1, 2^40), parseValue<int|int64_t|double|float|bool|milliseconds>, parseUnsignedInt vs a "
           "three-valued exact-arithmetic reference; I: for each of 17 registered plugins the all-valid baseline and EVERY single deviation "
           "(required arg missing, unknown arg, each arg <- each valid/invalid sample incl. overflow, fraction-for-int, negative, empty) through the "
           "start-up path (Main.cpp parseConfig + compile) and the run-time drop-in path, with parsed private fields compared to exact values; R: "
           "ruleset-level fields and structural emptiness; J: maximal valid document with every node position <- {null,true,0,1.5,'','s',[],[1],{},"
           "{a:1}, deleted}; T: every byte-prefix and every single-byte deletion; oracle: never a crash / sanitizer report / escaping exception, "
           "accepted iff valid where the reference decides, rejected drop-in leaves the engine unchanged; non-trivial = distinct case";
  }
  Json::Value bounds() override {
    Json::Value b;
    b["string_length"] = lenN;
    b["alphabet"] = "0159.e-+kMGt% naifx";
    b["ir_cases"] = (Json::UInt64)irCases.size();
    b["json_documents"] = (Json::UInt64)jsonDocs.size();
    b["deviations"] = "all single deviations (k=1)";
    return b;
  }
  std::vector<std::string> assumptions() override {
    return {"left open (DONT_CARE): leading sign, hex spellings, '1.'/'.5', blanks inside a number, fractional percent, unit-less fraction in "
            "parseSizeOrPercent, unknown JSON keys, extreme float exponents",
            "plugins 'continue'/'stop' declare no arguments and are not subject to the unknown-argument rule"};
  }
};
}  // namespace
int main(int argc, char** argv) {
  C12 d;
  return vr::main(argc, argv, d);
}
