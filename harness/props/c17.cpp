// C17 - Kill accounting. Wet and dry runs of the real kill plugins over simulated trees with
// pre-existing xattr values, 0/1/25/nested processes, partial kill failures, repeated kills of
// the same cgroup across ticks and silence-logs settings.  Oracle: monitor over the effect log
// (xattr writes, kmsg records), the oomd.kills statistic and the observed PluginRet.
#include "common/killsim.h"
#include "common/runner.h"

namespace {
using ks::Cg;
const char* kPlugins[] = {"kill_by_memory_size_or_growth", "kill_by_pressure", "kill_by_swap_usage", "kill_by_pg_scan"};
// pre-existing (trusted.*, user.*) counter values; the two namespaces are independent counters and may differ
const char* kPre[][2] = {{"", ""}, {"0", "0"}, {"41", "41"}, {"2147483000", "2147483000"}, {"41", "7"}, {"", "5"}, {"9", ""}};
const size_t kNPre = sizeof kPre / sizeof kPre[0];
const char* kSil[] = {"", "plugins", "engine,plugins"};

struct C17 : vr::Driver {
  vr::Mixed mx;
  std::vector<int> plugins;
  std::string tier_;
  std::string id() override { return "C17"; }
  void configure(const std::string& tier, uint64_t) override {
    tier_ = tier;
    bool th = tier == "thorough";
    plugins = th ? std::vector<int>{0, 1, 2, 3} : std::vector<int>{0, 1};
    // dims: shape(2) pop(4) outcome(4) pre(4) plugin silence(3) always_continue(2) dry(2) kernelkill(2)
    //       history(4: none / new process before tick 3 / a nested descendant cgroup disappears right after the first signal /
    //       a nested descendant's cgroup.procs cannot be opened (EMFILE) from the first signal on)
    //       prekill hook(2: none / pending for one tick per invocation: the accounted kill is a resumed one)
    mx.dims = {2, 4, 4, kNPre, plugins.size(), 3, 2, 2, 2, 4, 2};
  }
  size_t count() override { return mx.total(); }
  size_t chunk() override { return 16; }
  ks::Scenario build(size_t idx) {
    auto d = mx.decode(idx);
    ks::Scenario s;
    std::vector<std::string> shape = d[0] == 0 ? std::vector<std::string>{"p", "p/a", "p/b", "p/c"}
                                               : std::vector<std::string>{"p", "p/a", "p/a/x", "p/a/y", "p/b"};
    for (size_t i = 0; i < shape.size(); i++) {
      Cg c;
      c.rel = shape[i];
      bool leaf = true;
      for (auto& o : shape)
        if (o.size() > c.rel.size() && o.compare(0, c.rel.size() + 1, c.rel + "/") == 0) leaf = false;
      switch (d[1]) {
        case 0: c.nprocs = leaf ? 1 : 0; break;
        case 1: c.nprocs = leaf ? (i == shape.size() - 1 ? 25 : 1) : 0; break;
        case 2: c.nprocs = leaf ? (i == shape.size() - 1 ? 0 : 2) : 0; break;   // best candidate empty
        case 3: c.nprocs = leaf ? 2 : 1; break;                                  // nested descendants populated too
      }
      c.mem = (long long)(i + 1) * (100LL << 20);
      c.swap = (long long)(i + 1) * (10LL << 20);
      c.p10 = 10 + 3 * (double)i;
      c.p60 = 6 + 2 * (double)i;
      c.pgscan = 100 * (long long)(i + 1);
      c.outcome = (int)d[2];
      {
        const char* nss[2] = {"trusted.", "user."};
        for (int n = 0; n < 2; n++)
          if (*kPre[d[3]][n]) {
            c.xattrs[std::string(nss[n]) + "oomd_ooms"] = kPre[d[3]][n];
            c.xattrs[std::string(nss[n]) + "oomd_kill"] = kPre[d[3]][n];
          }
      }
      s.cgs.push_back(c);
    }
    s.plugin = kPlugins[plugins[d[4]]];
    // flat shape: siblings targeted directly; nested shape: non-recursive on p/* so that p/a (with descendants) is a victim
    s.args["cgroup"] = "p/*";
    if (s.plugin == "kill_by_pressure") s.args["resource"] = "memory";
    s.silence = kSil[d[5]];
    if (d[6]) s.args["always_continue"] = "true";
    if (d[7]) s.args["dry"] = "true";
    if (d[8]) s.args["kernelkill"] = "true";
    s.ticks = 3;
    if (d[9] == 1) s.steps.push_back({3, 3, shape.back()});  // the (probably already killed) cgroup gets a new process before tick 3
    if (d[9] == 2 && d[0] == 1) {
      // p/a/y disappears (its processes exit, systemd removes the unit) as soon as the first signal of the run has been sent
      auto done = std::make_shared<bool>(false);
      s.afterKill = [done](int, int) {
        if (*done) return;
        *done = true;
        if (world::exists("p/a/y")) {
          world::rmcg("p/a/y");
          world::syncProcs();
        }
      };
    }
    if (d[10]) {
      s.hooksJson = "{\"name\":\"verif_hook\",\"args\":{\"id\":\"h\",\"cgroup\":\"/\"}}";
      s.hookTimeout = 30;
      s.hookDecide = [](const std::string&, long, int polls) { return polls >= 1; };
      s.ticks += 2;
    }
    if (d[9] == 3 && d[0] == 1) {
      s.afterKill = [](int, int) {
        vb::onAccess = [](const char* op, const std::string& path) -> int {
          static const std::string tail = "/p/a/y/cgroup.procs";
          bool opening = strncmp(op, "open", 4) == 0 || strncmp(op, "fopen", 5) == 0;
          return opening && path.size() > tail.size() && path.compare(path.size() - tail.size(), tail.size(), tail) == 0 ? EMFILE : 0;
        };
      };
    }
    return s;
  }
  std::string describe(size_t i) override { return build(i).describe() + (mx.decode(i)[9] == 2 ? " [p/a/y disappears after the first signal]" : mx.decode(i)[9] == 3 ? " [p/a/y/cgroup.procs unreadable after the first signal]" : ""); }
  std::string klass(size_t i) override { return build(i).plugin; }
  void workerInit() override { sim::processInit(); }

  void run(size_t idx, vr::Result& r, bool verbose) override {
    ks::Scenario s = build(idx);
    vb::onAccess = nullptr;
    ks::Outcome o = ks::run(s, verbose);
    vb::onAccess = nullptr;
    std::string cls = "C17|" + s.plugin + "|";
    if (!o.rejected.empty()) {
      r.violate("C17|harness|config-rejected", o.rejected);
      return;
    }
    if (o.tick.escaped) {
      r.violate(cls + "uncaught:" + o.tick.excType, s.describe() + "\n" + o.tick.excWhat + "\n" + o.tick.excFrames);
      return;
    }
    bool dry = s.args.count("dry"), ac = s.args.count("always_continue"), kk = s.args.count("kernelkill");
    auto dump = [&]() {
      std::ostringstream l;
      for (size_t i = 0; i < o.effects.size(); i++)
        l << "  [t" << o.tickOfEffect(i) << "] " << o.effects[i].str().substr(0, 220) << "\n";
      for (auto& c : o.calls)
        if (c.method == "run") l << "  call t" << c.tick << " " << c.id << " -> " << "CSA"[c.ret] << "\n";
      return l.str();
    };
    auto fail = [&](const std::string& rule, const std::string& text) {
      r.violate(cls + "monitor:" + rule, s.describe() + "\n" + text + "\nlog:\n" + dump());
    };
    // shadow xattr store
    std::map<std::pair<std::string, std::string>, std::string> shadow;
    for (auto& c : s.cgs)
      for (auto& x : c.xattrs) shadow[{c.rel, x.first}] = x.second;
    auto num = [](const std::string& v) { return v.empty() ? 0LL : atoll(v.c_str()); };
    std::set<std::string> uuids;
    int successesTotal = 0;
    for (int t = 1; t <= s.ticks; t++) {
      int successes = 0;
      for (auto& a : o.attempts) {
        if (a.tick != t) continue;
        if (a.dry != dry) return fail("dry-marking", "attempt on " + a.victim + (a.dry ? " is marked (dry) in a wet run" : " is a wet attempt in a dry run"));
        int kmsgLines = 0;
        std::string line;
        if (a.dry) {
          kmsgLines = 1;
          line = o.effects[a.effBegin].arg;
          successes++;
        } else {
          if (a.uuid.empty() || uuids.count(a.uuid)) return fail("uuid-not-fresh", "attempt on " + a.victim + " uuid '" + a.uuid + "'");
          uuids.insert(a.uuid);
          std::map<std::string, std::string> written;
          for (size_t i = a.effBegin; i < a.effEnd; i++) {
            auto& e = o.effects[i];
            if (e.kind == "setxattr" && e.ret == 0) written[e.arg] = e.val;
            if (e.kind == "kmsg" && e.arg.rfind("oomd kill: ", 0) == 0) {
              kmsgLines++;
              line = e.arg;
            }
          }
          bool success = a.signalled() > 0 || (kk && a.killFileWritten);
          for (const char* ns : {"trusted.", "user."}) {
            std::string u = std::string(ns) + "oomd_kill_uuid", om = std::string(ns) + "oomd_ooms", kl = std::string(ns) + "oomd_kill";
            if (written[u] != a.uuid) return fail("uuid-xattr", u + " on " + a.victim + " = '" + written[u] + "' expected " + a.uuid);
            long long prevO = num(shadow[{a.victim, om}]), prevK = num(shadow[{a.victim, kl}]);
            if (!written.count(om) || num(written[om]) != prevO + 1)
              return fail("ooms-xattr", om + " on " + a.victim + " = '" + written[om] + "' expected " + std::to_string(prevO + 1));
            if (!kk) {
              if (!written.count(kl) || num(written[kl]) != prevK + a.signalled())
                return fail("kill-xattr", kl + " on " + a.victim + " = '" + written[kl] + "' expected " + std::to_string(prevK + a.signalled()) +
                                              " (previous " + std::to_string(prevK) + " + " + std::to_string(a.signalled()) + " SIGKILLs delivered)");
            } else if (written.count(kl) && num(written[kl]) < prevK) {
              return fail("kill-xattr", kl + " decreased");
            }
            shadow[{a.victim, u}] = written[u];
            shadow[{a.victim, om}] = written[om];
            if (written.count(kl)) shadow[{a.victim, kl}] = written[kl];
          }
          if (success) successes++;
          if (kmsgLines != (success ? 1 : 0))
            return fail("kmsg-record-count", "attempt on " + a.victim + " signalled " + std::to_string(a.signalled()) + " processes but wrote " +
                                                 std::to_string(kmsgLines) + " 'oomd kill' records");
        }
        if (kmsgLines == 1) {
          bool okLine = line.find(" " + a.victim + " ") != std::string::npos && line.find("ruleset:[RK]") != std::string::npos &&
                        line.find("detectorgroup:[gk]") != std::string::npos &&
                        line.find(std::string("killer:") + (dry ? "(dry)" : "") + s.plugin) != std::string::npos;
          if (!okLine) return fail("kmsg-record-content", "record '" + line + "' does not name cgroup " + a.victim + ", ruleset RK, group gk, plugin " + s.plugin);
        }
      }
      // stray records outside attempts
      // statistic
      int before = t == 1 ? 0 : o.killsStatAtTickEnd[t - 1], after = o.killsStatAtTickEnd[t];
      int want = dry ? 0 : successes;
      if (after - before != want)
        return fail("kills-stat", "tick " + std::to_string(t) + ": oomd.kills rose by " + std::to_string(after - before) + " expected " + std::to_string(want));
      // return value / next action
      int kret = -1;
      bool afterRan = false;
      for (auto& c : o.calls) {
        if (c.tick != t || c.method != "run") continue;
        if (c.id == "K") kret = c.ret;
        if (c.id == "after") afterRan = true;
      }
      if (kret >= 0) {
        // ASYNC_PAUSED is legitimate while kill_by_pg_scan takes its first sample and while a prekill hook is pending
        bool hookPending = false;
        for (auto& h : o.hooks) hookPending |= h.tick == t && h.kind == "poll" && !h.finished;
        bool sampling = kret == 2 && (s.plugin == "kill_by_pg_scan" || hookPending);
        if (!sampling) {
          int wantRet = (successes > 0 && !ac) ? 1 : 0;
          if (kret != wantRet)
            return fail("return-value", "tick " + std::to_string(t) + ": plugin returned " + std::string(1, "CSA"[kret]) + " expected " +
                                            std::string(1, "CSA"[wantRet]) + " (successful attempts " + std::to_string(successes) + ", always_continue " + (ac ? "1" : "0") + ")");
        } else if (successes > 0) {
          return fail("return-value", "ASYNC_PAUSED although a victim was attacked");
        }
        if (afterRan != (kret == 0)) return fail("next-action", "next action ran=" + std::to_string(afterRan) + " after return " + std::string(1, "CSA"[kret]));
      }
      successesTotal += successes;
    }
    // records outside any attempt
    size_t recs = 0, recsInAttempts = 0;
    for (auto& e : o.effects) recs += e.kind == "kmsg" && e.arg.rfind("oomd kill: ", 0) == 0;
    for (auto& a : o.attempts)
      for (size_t i = a.effBegin; i < std::max(a.effEnd, a.effBegin + 1) && i < o.effects.size(); i++)
        recsInAttempts += o.effects[i].kind == "kmsg" && o.effects[i].arg.rfind("oomd kill: ", 0) == 0;
    if (recs != recsInAttempts) return fail("kmsg-record-count", "kill records outside any attempt");
    if (dry)
      for (auto& e : o.effects)
        if (e.kind == "setxattr" || e.kind == "kill" || e.kind == "ctlwrite") return fail("dry-side-effect", e.str());
    std::ostringstream ob;
    for (auto& a : o.attempts) ob << a.tick << a.victim << a.signalled() << "/" << a.failedPids.size() << (a.dry ? "d" : "") << ";";
    r.counters["attempts"] += (long long)o.attempts.size();
    r.counters["successful_attempts"] += successesTotal;
    if (!o.attempts.empty()) r.nontrivial(s.plugin + s.silence + ob.str() + kPre[mx.decode(idx)[3]][0] + "/" + kPre[mx.decode(idx)[3]][1]);
  }
  std::string rule() override {
    return "full product: 2 shapes (flat siblings; victim with nested descendants) x 4 populations (1, 25, best-candidate-empty, nested) x "
           "4 kill outcomes (all die, all ESRCH, first EPERM, first lingers) x pre-existing (trusted,user) xattr counter values {absent,0,41,2147483000 in both; 41/7; absent/5; 9/absent} x plugin "
           "x silence-logs {none, plugins, engine+plugins} x always_continue x dry x kernelkill x history (3 ticks; optionally the dead "
           "cgroup gets a new process and is killed again); monitor per attempt: uuid xattr = fresh id, oomd_ooms +1, oomd_kill + "
           "successful SIGKILLs, exactly one structured kmsg record iff >=1 process signalled (also when plugin logs are silenced), "
           "oomd.kills +1 iff so, dry: '(dry)' record and nothing else, PluginRet and next-action execution; non-trivial = distinct "
           "attempt log with >=1 attempt";
  }
  Json::Value bounds() override {
    Json::Value b;
    b["ticks"] = 3;
    b["plugins"] = (int)plugins.size();
    return b;
  }
  std::vector<std::string> assumptions() override {
    return {"non-integer pre-existing xattr text and values whose increment overflows int are outside the statement and not enumerated",
            "kernelkill: oomd_kill is only required not to decrease (the statement counts SIGKILLs sent, which do not exist on that path)"};
  }
};
}  // namespace
int main(int argc, char** argv) {
  C17 d;
  return vr::main(argc, argv, d);
}
