// C07 - Prekill hooks. Real BaseKillPlugin deferred path (serialize -> ASYNC_PAUSED ->
// resumeFromPrekillHook -> deserialize by path+id) and real Engine::firePrekillHook with the
// scripted hook `verif_hook` in the real prekill-hook registry.  Per configuration the explorer
// enumerates every hook completion history (finished / still running at each poll) and every
// environment event at each tick of the wait (victim removed, removed+re-created, fallback
// candidate removed), within a deviation bound.  Oracle: monitor over the interleaved log.
#include <cmath>
#include <set>

#include "common/explore.h"
#include "common/killsim.h"
#include "common/runner.h"
#include "oomd/config/JsonConfigParser.h"
#include "oomd/dropin/DropInServiceAdaptor.h"

namespace {
using ks::Cg;

struct HookDef {
  std::string id, pattern, tag;  // tag "" = base
};
struct Config {
  std::string name;
  std::vector<HookDef> base;
  std::vector<std::vector<HookDef>> dropins;  // in order of addition
  int timeout;
  int spacing;
  int firstOutcome;  // 0 first victim's kill succeeds, 1 signals nothing (fallback)
  bool recursiveTree;   // kill action configured with cgroup=p recursive=true (victim != configured kill root)
  double killLatency;   // virtual seconds per kill(2): time passes inside a tick, so the window can close between candidates
};

struct Adaptor : Oomd::DropInServiceAdaptor {
  using Oomd::DropInServiceAdaptor::DropInServiceAdaptor;
  void tick() override {}
  void handleDropInAddResult(const std::string&, bool) override {}
  void handleDropInRemoveResult(const std::string&, bool) override {}
  bool add(const std::string& tag, const std::string& json) {
    Oomd::Config2::JsonConfigParser p;
    auto root = p.parse(json);
    return root && scheduleDropInAdd(tag, *root);
  }
};

std::string hookJson(const HookDef& h) {
  return "{\"name\":\"verif_hook\",\"args\":{\"id\":\"" + h.id + "\",\"cgroup\":\"" + h.pattern + "\"}}";
}

// reference: the three-case relation of docs/prekill_hooks.md ('*' = exactly one whole component)
bool refHookMatches(const std::string& patternList, const std::string& victim) {
  for (auto& pat : rg::splitComma(patternList)) {
    auto pc = rg::comps(pat), vc = rg::comps(victim);
    bool ok = true;
    for (size_t i = 0; i < std::min(pc.size(), vc.size()); i++)
      if (!(pc[i] == "*" || pc[i] == vc[i])) ok = false;
    if (ok) return true;
  }
  return false;
}

struct C07 : vr::Driver {
  std::vector<Config> cfgs;
  std::string tier_;
  int maxDev = 3;
  std::string id() override { return "C07"; }
  void configure(const std::string& tier, uint64_t) override {
    tier_ = tier;
    bool th = tier == "thorough";
    maxDev = th ? 3 : 2;
    const std::pair<const char*, const char*> pats[] = {{"p/a", "/"}, {"q", "p/*"}, {"p/b", "p/a"}, {"q", "q2"}, {"p/a/x", "p"}, {"*/b,p/c", "*"}};
    for (int hv = 0; hv < 4; hv++)
      for (auto& pp : pats)
        for (int to : {0, 2, 5})
          for (int sp : {1, 3})
            for (int fo : {0, 1}) {
              if (!th && hv == 0 && !(std::string(pp.first) == "p/a" && sp == 1)) continue;  // no hooks: one pattern row is enough
              if (!th && to == 5 && sp == 3 && fo == 0) continue;
              Config c;
              c.timeout = to;
              c.spacing = sp;
              c.firstOutcome = fo;
              c.recursiveTree = false;
              c.killLatency = 0;
              switch (hv) {
                case 0: c.name = "no-hooks"; break;
                case 1:
                  c.name = "base[H1,H2]";
                  c.base = {{"H1", pp.first, ""}, {"H2", pp.second, ""}};
                  break;
                case 2:
                  c.name = "base[H1]+T1[D1]";
                  c.base = {{"H1", pp.first, ""}};
                  c.dropins = {{{"D1", pp.second, "T1"}}};
                  break;
                case 3:
                  c.name = "base[H1]+T1[D1,D2]+T2[E1]";
                  c.base = {{"H1", "/", ""}};
                  c.dropins = {{{"D1", pp.first, "T1"}, {"D2", pp.second, "T1"}}, {{"E1", pp.first, "T2"}}};
                  break;
              }
              cfgs.push_back(c);
              // variants: recursive search below the configured root; kills that take time
              bool recV = th ? (sp == 1) : (hv == 1 && to == 2 && sp == 1);
              bool latV = th ? (to != 0 && sp == 1 && hv != 0) : (hv == 1 && fo == 1 && to != 0 && sp == 1);
              if (recV) {
                Config c2 = c;
                c2.recursiveTree = true;
                c2.name += "/recursive";
                cfgs.push_back(c2);
              }
              if (latV) {
                Config c2 = c;
                c2.killLatency = 1.1;
                c2.name += "/slow-kill";
                cfgs.push_back(c2);
              }
            }
  }
  size_t count() override { return cfgs.size(); }
  std::string describe(size_t i) override {
    auto& c = cfgs[i];
    std::ostringstream o;
    o << c.name << " hooks:";
    for (auto& h : c.base) o << " " << h.id << "=" << h.pattern;
    for (auto& d : c.dropins)
      for (auto& h : d) o << " " << h.tag << ":" << h.id << "=" << h.pattern;
 if (c.recursiveTree) o << " kill action cgroup=p recursive=true";
    if (c.killLatency > 0) o << " kill(2) takes " << c.killLatency << "s";
    o << " prekill_hook_timeout=" << c.timeout << " tick spacing=" << c.spacing << "s first victim kill " << (c.firstOutcome ? "signals nothing" : "succeeds")
      << "; explorer: hook poll answers x per-tick events {none, victim removed, victim re-created, fallback removed}, <= " << maxDev << " deviations";
    return o.str();
  }
  std::string klass(size_t) override { return "hooks"; }
  void workerInit() override { sim::processInit(); }

  void run(size_t ci, vr::Result& r, bool verbose) override {
    const Config& c = cfgs[ci];
    // priority order: drop-ins newest first (file order within a tag), then base in config order
    std::vector<HookDef> prio;
    for (size_t d = c.dropins.size(); d-- > 0;)
      for (auto& h : c.dropins[d]) prio.push_back(h);
    for (auto& h : c.base) prio.push_back(h);
    auto expectedHook = [&](const std::string& victim) -> std::string {
      for (auto& h : prio)
        if (refHookMatches(h.pattern, victim)) return h.id;
      return "";
    };
    size_t execs = 0, withDefer = 0, withTimeout = 0, withIdentity = 0;
    std::set<std::string> outcomes;
    ve::exploreAll([&](ve::Chooser& ch) {
      execs++;
      ks::Scenario s;
      s.plugin = "kill_by_swap_usage";
      s.args["cgroup"] = c.recursiveTree ? "p" : "p/*";
      if (c.recursiveTree) s.args["recursive"] = "true";
      s.killLatency = c.killLatency;
      s.ticks = 5;
      s.tickSpacing = c.spacing;
      s.hookTimeout = c.timeout;
      const char* names[] = {"p", "p/a", "p/b", "p/c"};
      for (int i = 0; i < 4; i++) {
        Cg g;
        g.rel = names[i];
        g.nprocs = i == 0 ? 0 : 2;
        g.swap = i == 0 ? (60LL << 20) : (long long)(40 - 10 * i) << 20;
        g.outcome = (i == 1 && c.firstOutcome) ? 1 : 0;
        s.cgs.push_back(g);
      }
      std::string hj;
      for (auto& h : c.base) hj += (hj.empty() ? "" : ",") + hookJson(h);
      s.hooksJson = hj;
      std::unique_ptr<Adaptor> adOwner;  // synchronous drop-in adaptor, owned here and driven at the start of every tick
      Adaptor* ad = nullptr;
      s.afterMake = [&](Oomd::Oomd&) {
        if (c.dropins.empty()) return;
        adOwner = std::make_unique<Adaptor>(world::cgfs(), *sim::lastIr, *sim::lastEngine);
        ad = adOwner.get();
        for (auto& d : c.dropins) {
          std::string j = "{\"rulesets\":[],\"prekill_hooks\":[";
          for (size_t k = 0; k < d.size(); k++) j += (k ? "," : "") + hookJson(d[k]);
          j += "]}";
          ad->add(d[0].tag, j);
        }
      };
      s.hookDecide = [&](const std::string&, long, int) { return ch.choose(2) == 0; };
      struct Ev {
        int tick, kind;
      };
      std::vector<Ev> evs;
      std::set<int> newPids;
      int nextNew = 9000;
      s.onTick = [&](int k) {
        if (ad) ad->updateDropIns();
        if (k < 2) return;
        int e = ch.choose(4);
        if (e == 0) return;
        evs.push_back({k, e});
        if (e == 1 && world::exists("p/a")) world::rmcg("p/a");
        if (e == 2) {
          if (world::exists("p/a")) world::rmcg("p/a");
          world::mkcg("p/a");
          world::setFile("p/a", "memory.swap.current", std::to_string(30LL << 20) + "\n");
          for (int n = 0; n < 2; n++) {
            world::addProc(nextNew, "p/a");
            newPids.insert(nextNew++);
          }
        }
        if (e == 3 && world::exists("p/b")) world::rmcg("p/b");
      };
      ks::Outcome o = ks::run(s, verbose);
      std::string where = describe(ci) + "\nchoices: " + ch.str();
      auto dump = [&]() {
        // interleave effects and hook events by effect index
        std::ostringstream l;
        size_t hi = 0;
        for (size_t i = 0; i <= o.effects.size(); i++) {
          while (hi < o.hooks.size() && o.hooks[hi].effectIndex <= i) {
            auto& h = o.hooks[hi++];
            l << "  [t" << h.tick << " " << h.t << "s] hook " << h.kind << " " << h.hook << " inv=" << h.inv << " on " << h.cgroup << (h.kind == "poll" ? (h.finished ? " -> finished" : " -> running") : "") << "\n";
          }
          if (i < o.effects.size() && o.effects[i].kind != "sleep") l << "  [t" << o.tickOfEffect(i) << "] " << o.effects[i].str().substr(0, 160) << "\n";
        }
        for (auto& e : evs) l << "  env@tick" << e.tick << ": " << (e.kind == 1 ? "p/a removed" : e.kind == 2 ? "p/a removed and re-created" : "p/b removed") << "\n";
        for (auto& cl : o.calls)
          if (cl.id == "K" && cl.method == "run") l << "  K.run tick" << cl.tick << " t=" << cl.t << " deadline=" << cl.deadline << " -> " << "CSA"[cl.ret] << "\n";
        return l.str();
      };
      auto fail = [&](const std::string& rule, const std::string& text) { r.violate("C07|hooks|monitor:" + rule, where + "\n" + text + "\nlog:\n" + dump()); };
      if (!o.rejected.empty()) return fail("harness", o.rejected);
      if (o.tick.escaped) {
        r.violate("C07|hooks|uncaught:" + o.tick.excType, where + "\n" + o.tick.excWhat + "\n" + o.tick.excFrames);
        return;
      }
      // chain deadline per tick from K's observed ActionContext
      std::map<int, double> deadlineAt, timeAt;
      std::map<int, int> retAt;
      std::map<int, std::string> uuidAt;  // action-chain run uuid seen by the kill action at each tick
      for (auto& cl : o.calls)
        if (cl.id == "K" && cl.method == "run") {
          uuidAt[cl.tick] = cl.uuid;
          deadlineAt[cl.tick] = cl.deadline;
          timeAt[cl.tick] = cl.t;
          retAt[cl.tick] = cl.ret;
        }
      // The window is counted from when the action chain FIRED (statement), so the deadline is recomputed here from the tick
      // at which each chain started (first run of the kill action after the previous chain ended) + prekill_hook_timeout,
      // not taken from the ActionContext the plugin is shown; the shown one must agree with it on every tick.
      {
        double chainStart = -1;
        int prevRet = -1;
        for (auto& kv : timeAt) {
          int t = kv.first;
          if (prevRet != 2) chainStart = kv.second;  // previous run of K did not suspend => a new chain fired on this tick
          double D = chainStart + c.timeout;
          if (std::fabs(deadlineAt[t] - D) > 1e-6)
            return fail("window-not-counted-from-chain-start", "at tick " + std::to_string(t) + " the kill action is shown a prekill deadline of " + std::to_string(deadlineAt[t]) +
                                                                   " but its chain fired at t=" + std::to_string(chainStart) + " with prekill_hook_timeout=" + std::to_string(c.timeout));
          deadlineAt[t] = D;
          prevRet = retAt[t];
        }
      }
      // 3. at most one live invocation
      int live = 0;
      for (auto& h : o.hooks) {
        if (h.kind == "fire") live++;
        if (h.kind == "destroy") live--;
        if (live > 1) return fail("two-invocations-outstanding", "a second hook was fired while invocation(s) were still alive");
      }
      // index hook events
      struct Inv {
        std::string hook, cg;
        int fireTick = 0;
        double fireTime = 0;
        size_t fireEff = 0, destroyEff = (size_t)-1, finishedEff = (size_t)-1;
        bool destroyed = false, finished = false;
      };
      std::map<long, Inv> invs;
      std::vector<long> order;
      for (auto& h : o.hooks) {
        auto& iv = invs[h.inv];
        if (h.kind == "fire") {
          iv.hook = h.hook;
          iv.cg = h.cgroup;
          iv.fireTick = h.tick;
          iv.fireTime = h.t;
          iv.fireEff = h.effectIndex;
          order.push_back(h.inv);
        } else if (h.kind == "poll" && h.finished && !iv.finished) {
          iv.finished = true;
          iv.finishedEff = h.effectIndex;
        } else if (h.kind == "destroy") {
          iv.destroyed = true;
          iv.destroyEff = h.effectIndex;
        }
      }
      // 1. who fires, and when
      for (long id : order) {
        auto& iv = invs[id];
        std::string want = expectedHook(iv.cg);
        if (want.empty()) return fail("fired-without-match", "hook " + iv.hook + " fired on " + iv.cg + " although no configured pattern matches it");
        if (iv.hook != want) return fail("wrong-priority", "hook " + iv.hook + " fired on " + iv.cg + " but " + want + " comes first in priority order and matches");
        double D = deadlineAt.count(iv.fireTick) ? deadlineAt[iv.fireTick] : 1e18;
        if (iv.fireTime > D + 1e-9) return fail("fired-after-window", "hook fired at t=" + std::to_string(iv.fireTime) + " after the chain's window closed at " + std::to_string(D));
      }
      // the kill action reports STOP only for a tick on which it signalled something (a victim that vanished while its hook ran is
      // a FAILED attempt: the search goes on or the action returns CONTINUE)
      for (auto& kv : retAt)
        if (kv.second == 1) {
          bool killed = false;
          for (auto& a : o.attempts) killed |= a.tick == kv.first && (a.signalled() > 0 || a.killFileWritten);
          if (!killed) return fail("stop-without-kill", "the kill action returned STOP at tick " + std::to_string(kv.first) + " although it signalled no process on that tick");
        }
      // the cgroup attacked once an invocation is over is the cgroup the hook was fired for
      for (long id : order) {
        auto& iv = invs[id];
        if (!iv.destroyed) continue;
        int dTick = 0;
        for (auto& h : o.hooks)
          if (h.kind == "destroy" && h.inv == id) dTick = h.tick;
        bool changed = false;
        for (auto& e : evs) {
          std::string hit = e.kind == 3 ? "p/b" : "p/a";
          if (e.tick > iv.fireTick && e.tick <= dTick && (iv.cg == hit || iv.cg.compare(0, hit.size() + 1, hit + "/") == 0)) changed = true;
        }
        if (changed) continue;
        size_t nextFire = (size_t)-1;
        for (long id2 : order)
          if (invs[id2].fireEff >= iv.destroyEff && id2 != id) nextFire = std::min(nextFire, invs[id2].fireEff);
        for (auto& a : o.attempts) {
          if (a.tick != dTick || a.effBegin < iv.destroyEff || a.effBegin >= nextFire) continue;
          if (a.victim != iv.cg)
            return fail("attacked-other-than-hooked-victim", "the hook ran for " + iv.cg + " but the attack that followed its invocation hit " + a.victim);
          break;
        }
      }
      // per attempt
      for (auto& a : o.attempts) {
        // fires on this victim between the previous attempt (or start of its chain) and this attempt
        size_t firstKill = a.effEnd;
        for (size_t i = a.effBegin; i < a.effEnd; i++)
          if (o.effects[i].kind == "kill" || (o.effects[i].kind == "ctlwrite" && ks::basePart(o.effects[i].path) == "cgroup.kill")) {
            firstKill = i;
            break;
          }
        std::vector<long> mine;
        for (long id : order) {
          auto& iv = invs[id];
          if (iv.cg != a.victim || iv.fireEff > a.effBegin) continue;
          // same action chain (run uuid) as the attack, and no other attack on this victim in between
          if (uuidAt[iv.fireTick] != uuidAt[a.tick]) continue;
          bool between = false;
          for (auto& b : o.attempts)
            if (&b != &a && b.victim == a.victim && b.effBegin >= iv.fireEff && b.effBegin < a.effBegin) between = true;
          if (!between) mine.push_back(id);
        }
        if (mine.size() > 1) return fail("more-than-one-hook-per-victim", std::to_string(mine.size()) + " hooks fired for one attack on " + a.victim);
        // the moment of the attack: virtual time of the attempt's first effect (time may pass inside a tick when kills are slow)
        double tAtt = a.effBegin < o.effects.size() ? (o.effects[a.effBegin].tNs - vb::kEpochNs) / 1e9 : (timeAt.count(a.tick) ? timeAt[a.tick] : 0);
        double D = deadlineAt.count(a.tick) ? deadlineAt[a.tick] : 1e18;
        if (mine.empty()) {
          std::string want = expectedHook(a.victim);
          if (!want.empty() && tAtt < D - 1e-9)
            return fail("victim-attacked-without-hook", a.victim + " was attacked at t=" + std::to_string(tAtt) + " (window open until " + std::to_string(D) + ") but hook " + want + " matches it and was not fired");
        } else {
          auto& iv = invs[mine[0]];
          bool finishedBefore = iv.finished && iv.finishedEff <= firstKill;
          if (!finishedBefore && tAtt < D - 1e-9)
            return fail("killed-before-hook-finished", a.victim + " attacked at t=" + std::to_string(tAtt) + " while its hook had not reported finished and the window (until " + std::to_string(D) + ") was still open");
          if (firstKill < a.effEnd && (!iv.destroyed || iv.destroyEff > firstKill))
            return fail("invocation-alive-at-first-signal", "the invocation for " + a.victim + " was not destroyed before the first signal");
          if (!finishedBefore) withTimeout++;
          // 4. identity
          for (auto& e : evs)
            if ((e.kind == 1 || e.kind == 2) && a.victim == "p/a" && e.tick > iv.fireTick && e.tick <= a.tick)
              return fail("killed-after-identity-change", "p/a was " + std::string(e.kind == 1 ? "removed" : "re-created") + " at tick " + std::to_string(e.tick) + " while its hook (fired at tick " + std::to_string(iv.fireTick) + ") ran, yet it was attacked at tick " + std::to_string(a.tick));
        }
      }
      // new pids of a re-created victim are only ever signalled by a chain that started after the re-creation
      for (size_t i = 0; i < o.effects.size(); i++) {
        auto& e = o.effects[i];
        if (e.kind != "kill" || !newPids.count((int)e.a)) continue;
        int t = o.tickOfEffect(i);
        for (long id : order) {
          auto& iv = invs[id];
          if (iv.cg != "p/a") continue;
          for (auto& ev : evs)
            if (ev.kind == 2 && ev.tick > iv.fireTick && ev.tick <= t && retAt.count(iv.fireTick) && retAt[iv.fireTick] == 2) {
              // was the chain of that invocation still the one running at tick t? (K resumed at t from ASYNC since fireTick)
              bool sameChain = true;
              for (int q = iv.fireTick; q < t; q++)
                if (!retAt.count(q) || retAt[q] != 2) sameChain = false;
              if (sameChain) return fail("killed-after-identity-change", "process " + std::to_string(e.a) + " of the re-created p/a was signalled by the chain whose hook ran on the old p/a");
            }
        }
      }
      bool deferred = false;
      for (auto& kv : retAt) deferred |= kv.second == 2;
      withDefer += deferred;
      withIdentity += !evs.empty();
      std::ostringstream ob;
      for (auto& h : o.hooks) ob << h.kind[0] << h.hook << h.tick << (h.finished ? "F" : "") << ";";
      for (auto& a : o.attempts) ob << a.tick << a.victim << a.signalled() << ";";
      outcomes.insert(ob.str());
    }, maxDev);
    r.evals = execs;
    r.counters["states"] += (long long)outcomes.size();   // distinct observable (hook, attempt) histories of this configuration
    r.counters["transitions"] += (long long)execs;
    r.counters["executions_with_deferral"] += (long long)withDefer;
    r.counters["attacks_after_window_closed"] += (long long)withTimeout;
    r.counters["executions_with_identity_event"] += (long long)withIdentity;
    for (auto& ob : outcomes) r.nontrivial(cfgs[ci].name + std::to_string(ci) + ob);
  }
  std::string rule() override {
    return "per configuration (hook list: none / base[H1,H2] / base+drop-in / base+two drop-in tags; 6 pattern rows incl. exact, '*' component, "
           "ancestor, descendant, non-matching, comma list; prekill_hook_timeout {0,2,5}; tick spacing {1,3}s; first victim's kill succeeds or "
           "signals nothing so the hook fires again for the fallback victim; variants: kill action configured recursively on the parent so the victim differs from the kill root, and kill(2) taking 1.1 virtual seconds so the window can close between two candidates of one tick): the explorer enumerates every sequence of hook poll answers "
           "{finished, running} and per-tick events {none, victim removed, victim removed+re-created, fallback candidate removed} with <= k "
           "deviations over 5 ticks through the real Oomd::run; monitor: <=1 fire per attack, fired hook = first in priority order matching under the "
           "reference three-case relation, no fire after the window, no attack before finished-or-window-closed, invocation destroyed before the "
           "first signal, never two invocations alive, no attack on a victim whose identity changed during the wait, the attack following an invocation hits the cgroup the hook ran for, STOP only with a signalled process; states = distinct observable "
           "hook/attack histories";
  }
  Json::Value bounds() override {
    Json::Value b;
    b["deviation_bound"] = maxDev;
    b["ticks"] = 5;
    b["left_open"] = "attack / fire exactly at the deadline (statement: 'once the window is over')";
    return b;
  }
  std::vector<std::string> assumptions() override {
    return {"drop-in hooks are installed through the real DropInServiceAdaptor before the first tick",
            "the explored space is executions (choice sequences), not a fixpoint; 'states' counts distinct observable histories"};
  }
  double scenarioTimeoutSec() override { return 600; }
};
}  // namespace
int main(int argc, char** argv) {
  C07 d;
  return vr::main(argc, argv, d);
}
