// C08 - Detectors decide by their documented predicate over the whole sample history.  Each real
// detector runs alone in a detector group (behind the verif_wrap observer) through Oomd::run under
// the virtual clock while the cgroup / proc files are rewritten between ticks.  ALL histories of
// length T over each detector's letter alphabet (value relative to threshold x clock advance x
// cgroup presence) are enumerated; the oracle evaluates the documented predicate over the whole
// history (never incrementally).
#include <cmath>
#include <functional>

#include "common/boundary.h"
#include "common/runner.h"
#include "common/sim.h"
#include "common/world.h"

namespace {

struct Sample {
  double t;       // virtual time of the tick
  int letter;
};

struct Case {
  std::string name;     // detector + parameters
  std::string plugin;
  std::string argsJson; // {"k":"v",...} without the wrap/id keys
  int nLetters;
  int T;
  std::function<void()> setup;                             // world before the first tick
  std::function<double(int letter, int tick)> apply;       // mutate the world for this tick (return value unused)
  std::function<double(int letter)> dtOf;                  // clock advance before this tick
  std::function<bool(const std::vector<Sample>&)> expect;  // documented predicate over the whole history (last sample = now)
  std::function<std::string(int letter)> letterName;
};

const long long GiB = 1LL << 30;

struct C08 : vr::Driver {
  std::vector<Case> cases;
  std::vector<std::pair<int, size_t>> items;  // (case, first history index) in chunks
  std::vector<size_t> histCount;
  std::string tier_;
  static constexpr size_t kChunk = 64;
  std::string id() override { return "C08"; }

  // ---- case builders ----------------------------------------------------------------------
  static void setPress(const std::string& rel, const std::string& res, double a10, double a60, double a300) {
    world::Psi full{a10, a60, a300, 1000}, some{a10, a60, a300, 2000};
    world::setPsi(rel, res, some, full);
  }
  static std::string secs(double d) {
    std::ostringstream o;
    o << d;
    return o.str();
  }
  void addPressureAbove(const std::string& res, int duration, int T, bool frac = false) {
    Case c;
    c.name = "pressure_above resource=" + res + " threshold=50 duration=" + std::to_string(duration) + (frac ? " (fractional clock advances)" : "");
    c.plugin = "pressure_above";
    c.argsJson = "\"cgroup\":\"w/a\",\"resource\":\"" + res + "\",\"threshold\":\"50\",\"duration\":\"" + std::to_string(duration) + "\"";
    c.nLetters = 9;
    c.T = T;
    c.setup = [] { world::mkcg("w/a"); };
    static const double vals[] = {49.99, 50.00, 50.01};
    const std::vector<double> dts = frac ? std::vector<double>{0.6, 1, 1.6} : std::vector<double>{1, 2, 5};
    c.apply = [res, dts](int l, int) {
      setPress("w/a", res, vals[l % 3], 10, 5);
      setPress("w/a", res == "memory" ? "io" : "memory", 99, 99, 99);  // the other resource must not matter
      return dts[l / 3];
    };
    c.expect = [duration](const std::vector<Sample>& h) {
      size_t n = h.size() - 1;
      for (size_t j = 0; j <= n; j++) {
        if (h[n].t - h[j].t < duration - 1e-9) continue;  // 'a tick at least duration seconds ago'
        bool all = true;
        for (size_t i = j; i <= n; i++) all &= (h[i].letter % 3) == 2;
        if (all) return true;
      }
      return false;
    };
    c.letterName = [dts](int l) { return std::string(l % 3 == 0 ? "below" : l % 3 == 1 ? "equal" : "above") + "+" + secs(dts[l / 3]) + "s"; };
    c.dtOf = [dts](int l) { return dts[l / 3]; };
    cases.push_back(c);
  }
  // two cgroups, one resolved through a wildcard and appearing / disappearing
  void addPressureAboveMulti(int duration, int T) {
    Case c;
    c.name = "pressure_above cgroup=w/* (two cgroups, one appearing/disappearing) threshold=50 duration=" + std::to_string(duration);
    c.plugin = "pressure_above";
    c.argsJson = "\"cgroup\":\"w/*\",\"resource\":\"memory\",\"threshold\":\"50\",\"duration\":\"" + std::to_string(duration) + "\"";
    c.nLetters = 12;  // a in {below, above} x b in {absent, below, above} x dt {1,2}
    c.T = T;
    c.setup = [] { world::mkcg("w/a"); };
    c.apply = [](int l, int) {
      int a = l % 2, b = (l / 2) % 3, dt = l / 6;
      setPress("w/a", "memory", a ? 60 : 20, a ? 30 : 10, a ? 15 : 5);
      if (b == 0) {
        if (world::exists("w/b")) world::rmcg("w/b");
      } else {
        world::mkcg("w/b");
        setPress("w/b", "memory", b == 2 ? 70 : 25, b == 2 ? 35 : 12, b == 2 ? 17 : 6);
      }
      return dt ? 2.0 : 1.0;
    };
    c.expect = [duration](const std::vector<Sample>& h) {
      auto above = [](int l) { return (l % 2) == 1 || ((l / 2) % 3) == 2; };  // the cgroup under most pressure is above
      size_t n = h.size() - 1;
      for (size_t j = 0; j <= n; j++) {
        if (h[n].t - h[j].t < duration - 1e-9) continue;  // 'a tick at least duration seconds ago'
        bool all = true;
        for (size_t i = j; i <= n; i++) all &= above(h[i].letter);
        if (all) return true;
      }
      return false;
    };
    c.letterName = [](int l) {
      static const char* bn[] = {"b-absent", "b-below", "b-above"};
      return std::string(l % 2 ? "a-above" : "a-below") + "/" + bn[(l / 2) % 3] + "+" + (l / 6 ? "2s" : "1s");
    };
    c.dtOf = [](int l) { return l / 6 ? 2.0 : 1.0; };
    cases.push_back(c);
  }
  // the ONLY watched cgroup (resolved through a wildcard) may be absent at a tick: an absent cgroup is a non-exceeding sample
  void addVanishing(const std::string& plugin, int duration, int T) {
    Case c;
    bool mem = plugin == "memory_above";
    c.name = plugin + " cgroup=v/* whose only match may be absent, duration=" + std::to_string(duration);
    c.plugin = plugin;
    c.argsJson = mem ? "\"cgroup\":\"v/*\",\"threshold\":\"1G\",\"duration\":\"" + std::to_string(duration) + "\""
                     : "\"cgroup\":\"v/*\",\"resource\":\"memory\",\"threshold\":\"50\",\"duration\":\"" + std::to_string(duration) + "\"";
    c.nLetters = 6;  // {absent, below, above} x dt {1,2}
    c.T = T;
    c.setup = [] { world::mkcg("v"); };
    c.apply = [mem](int l, int) {
      int v = l % 3;
      if (v == 0) {
        if (world::exists("v/a")) world::rmcg("v/a");
      } else {
        world::mkcg("v/a");
        if (mem)
          world::setMem("v/a", v == 2 ? GiB + 1 : GiB - 1);
        else
          setPress("v/a", "memory", v == 2 ? 60 : 40, 10, 5);
      }
      return 0.0;
    };
    c.dtOf = [](int l) { return l / 3 ? 2.0 : 1.0; };
    c.expect = [duration](const std::vector<Sample>& h) {
      size_t n = h.size() - 1;
      for (size_t j = 0; j <= n; j++) {
        if (h[n].t - h[j].t < duration - 1e-9) continue;  // 'a tick at least duration seconds ago'
        bool all = true;
        for (size_t i = j; i <= n; i++) all &= (h[i].letter % 3) == 2;
        if (all) return true;
      }
      return false;
    };
    c.letterName = [](int l) { return std::string(l % 3 == 0 ? "absent" : l % 3 == 1 ? "below" : "above") + (l / 3 ? "+2s" : "+1s"); };
    cases.push_back(c);
  }
  void addMemoryAbove(const std::string& thrText, long long thrBytes, bool anon, int duration, int T, bool frac = false) {
    Case c;
    c.name = std::string("memory_above ") + (anon ? "threshold_anon" : "threshold") + "='" + thrText + "' (" + std::to_string(thrBytes) + " bytes) duration=" + std::to_string(duration) + (frac ? " (fractional clock advances)" : "");
    c.plugin = "memory_above";
    c.argsJson = std::string("\"cgroup\":\"w/*\",\"") + (anon ? "threshold_anon" : "threshold") + "\":\"" + thrText + "\",\"duration\":\"" + std::to_string(duration) + "\"";
    if (anon) c.argsJson += ",\"threshold\":\"1\"";  // when both are given only threshold_anon is effective
    c.nLetters = 9;
    c.T = T;
    c.setup = [] {
      world::mkcg("w/a");
      world::mkcg("w/b");
      world::setMeminfo(16777216, 8388608, 2097152, 2097152);  // MemTotal 16 GiB
    };
    const std::vector<double> dts = frac ? std::vector<double>{0.6, 1, 1.6} : std::vector<double>{1, 2, 5};
    c.apply = [thrBytes, anon, dts](int l, int) {
      long long v = thrBytes + (l % 3) - 1;
      // w/a carries the watched value, w/b is smaller: "the cgroup with the largest usage"
      if (anon) {
        world::setMemStatKey("w/a", "anon", v);
        world::setMemStatKey("w/b", "anon", v / 2);
        world::setMem("w/a", 1);        // total usage must not matter
        world::setMem("w/b", 1LL << 50);
      } else {
        world::setMem("w/a", v);
        world::setMem("w/b", v / 2);
        world::setMemStatKey("w/b", "anon", 1LL << 50);
      }
      return dts[l / 3];
    };
    c.expect = [duration](const std::vector<Sample>& h) {
      size_t n = h.size() - 1;
      for (size_t j = 0; j <= n; j++) {
        if (h[n].t - h[j].t < duration - 1e-9) continue;  // 'a tick at least duration seconds ago'
        bool all = true;
        for (size_t i = j; i <= n; i++) all &= (h[i].letter % 3) == 2;
        if (all) return true;
      }
      return false;
    };
    c.letterName = [dts](int l) { return std::string(l % 3 == 0 ? "thr-1" : l % 3 == 1 ? "thr" : "thr+1") + "+" + secs(dts[l / 3]) + "s"; };
    c.dtOf = [dts](int l) { return dts[l / 3]; };
    cases.push_back(c);
  }
  void addRisingBeyond(int duration, int T) {
    Case c;
    c.name = "pressure_rising_beyond threshold=50 duration=" + std::to_string(duration) + " fast_fall_ratio=0.85";
    c.plugin = "pressure_rising_beyond";
    c.argsJson = "\"cgroup\":\"w/a\",\"resource\":\"memory\",\"threshold\":\"50\",\"duration\":\"" + std::to_string(duration) + "\"";
    c.nLetters = 16;  // avg10 in {40,60,80,95} x avg60 in {49.99, 50.01} x dt {1,2}
    c.T = T;
    c.setup = [] { world::mkcg("w/a"); };
    static const double a10s[] = {40, 60, 80, 95};
    c.apply = [](int l, int) {
      setPress("w/a", "memory", a10s[l % 4], (l / 4) % 2 ? 50.01 : 49.99, 1);
      return (l / 8) ? 2.0 : 1.0;
    };
    c.expect = [duration](const std::vector<Sample>& h) {
      size_t n = h.size() - 1;
      double a10 = a10s[h[n].letter % 4], prev = n == 0 ? 100.0 : a10s[h[n - 1].letter % 4];
      bool window = false;
      for (size_t j = 0; j <= n && !window; j++) {
        if (h[n].t - h[j].t < duration - 1e-9) continue;  // 'a tick at least duration seconds ago'
        bool all = true;
        for (size_t i = j; i <= n; i++) all &= ((h[i].letter / 4) % 2) == 1;
        window = all;
      }
      bool fallingFast = a10 < prev * 0.85;
      return window && a10 > 50 && !fallingFast;
    };
    c.letterName = [](int l) { return "avg10=" + std::to_string((int)a10s[l % 4]) + ((l / 4) % 2 ? ",avg60>thr" : ",avg60<thr") + ((l / 8) ? "+2s" : "+1s"); };
    c.dtOf = [](int l) { return (l / 8) ? 2.0 : 1.0; };
    cases.push_back(c);
  }
  void addMemoryReclaim(int duration, int T) {
    Case c;
    c.name = "memory_reclaim duration=" + std::to_string(duration);
    c.plugin = "memory_reclaim";
    c.argsJson = "\"cgroup\":\"w/*\",\"duration\":\"" + std::to_string(duration) + "\"";
    c.nLetters = 6;  // pgscan grows {no, yes} x dt {1,2,5}
    c.T = T;
    c.setup = [] {
      world::mkcg("w/a");
      world::mkcg("w/b");
      world::setMemStatKey("w/a", "pgscan", 0);
      world::setMemStatKey("w/b", "pgscan", 0);
    };
    static const double dts[] = {1, 2, 5};
    auto total = std::make_shared<long long>(0);
    c.setup = [total] {
      world::mkcg("w/a");
      world::mkcg("w/b");
      *total = 0;
    };
    c.apply = [total](int l, int tick) {
      if (l % 2) *total += 5;
      // the growth lands alternately in one of the two cgroups: the detector watches the sum
      world::setMemStatKey(tick % 2 ? "w/a" : "w/b", "pgscan", *total);
      world::setMemStatKey(tick % 2 ? "w/b" : "w/a", "pgscan", 0);
      return dts[l / 2];
    };
    c.expect = [duration](const std::vector<Sample>& h) {
      size_t n = h.size() - 1;
      for (size_t j = 0; j <= n; j++)
        if ((h[j].letter % 2) == 1 && std::floor(h[n].t - h[j].t) <= duration) return true;
      return false;
    };
    c.letterName = [](int l) { return std::string(l % 2 ? "pgscan+5" : "pgscan+0") + "+" + std::to_string((int)dts[l / 2]) + "s"; };
    c.dtOf = [](int l) { return dts[l / 2]; };
    cases.push_back(c);
  }
  // memory_reclaim over a wildcard whose second match disappears and comes back with a fresh counter: the watched
  // sum DROPS, and growth after the drop is growth (the sum is compared with the previous tick, not with its peak)
  void addMemoryReclaimVanish(int duration, int T) {
    Case c;
    c.name = "memory_reclaim duration=" + std::to_string(duration) + " (second wildcard match removed / re-created)";
    c.plugin = "memory_reclaim";
    c.argsJson = "\"cgroup\":\"w/*\",\"duration\":\"" + std::to_string(duration) + "\"";
    c.nLetters = 6;
    c.T = T;
    struct St {
      long long a = 0, b = 0;
      bool bExists = true;
    };
    auto st = std::make_shared<St>();
    c.setup = [st] {
      world::mkcg("w/a");
      world::mkcg("w/b");
      *st = St{};
    };
    auto step = [](St& s, int l) {
      if (l == 1 || l == 5) s.a += 5;
      if (l == 2 && s.bExists) s.b += 7;
      if (l == 3) {
        s.bExists = !s.bExists;
        s.b = 0;
      }
    };
    c.apply = [st, step](int l, int) {
      bool had = st->bExists;
      step(*st, l);
      if (had && !st->bExists) world::rmcg("w/b");
      if (!had && st->bExists) world::mkcg("w/b");
      world::setMemStatKey("w/a", "pgscan", st->a);
      if (st->bExists) world::setMemStatKey("w/b", "pgscan", st->b);
      return l >= 4 ? 3.0 : 1.0;
    };
    c.expect = [duration, step](const std::vector<Sample>& h) {
      size_t n = h.size() - 1;
      St s;
      long long prev = 0;
      bool ok = false;
      for (size_t j = 0; j <= n; j++) {
        step(s, h[j].letter);
        long long sum = s.a + (s.bExists ? s.b : 0);
        if (sum > prev && h[n].t - h[j].t <= duration + 1e-9) ok = true;
        prev = sum;
      }
      return ok;
    };
    c.letterName = [](int l) {
      static const char* n[] = {"nothing+1s", "a.pgscan+5 +1s", "b.pgscan+7 +1s", "toggle b (remove / re-create empty) +1s", "nothing+3s", "a.pgscan+5 +3s"};
      return std::string(n[l]);
    };
    c.dtOf = [](int l) { return l >= 4 ? 3.0 : 1.0; };
    cases.push_back(c);
  }
  void addSwapFree(int pct, long long bpsThr, int T) {
    Case c;
    c.name = "swap_free threshold_pct=" + std::to_string(pct) + (bpsThr >= 0 ? " swapout_bps_threshold=" + std::to_string(bpsThr) : "");
    c.plugin = "swap_free";
    c.argsJson = "\"threshold_pct\":\"" + std::to_string(pct) + "\"" + (bpsThr >= 0 ? ",\"swapout_bps_threshold\":\"" + std::to_string(bpsThr) + "\"" : "");
    c.nLetters = 8;  // free in {below, equal, above, no swap} x pswpout grows {no, yes}
    c.T = T;
    const long long totalKb = 1000000;  // total*pct/100 is an exact number of kB
    auto pswp = std::make_shared<long long>(0);
    c.setup = [pswp] { *pswp = 0; };
    c.apply = [pct, totalKb, pswp](int l, int) {
      int f = l % 4;
      long long thrKb = totalKb * pct / 100;
      long long freeKb = f == 0 ? thrKb - 1 : f == 1 ? thrKb : thrKb + 1;
      if (freeKb < 0) freeKb = 0;
      if (freeKb > totalKb) freeKb = totalKb;
      if (f == 3)
        world::setSwaps(-1, 0);  // no swap device
      else
        world::setSwaps(totalKb, totalKb - freeKb);
      if (l / 4) *pswp += 1000;  // 1000 pages per interval(5 s) = 819200 B/s
      world::setProc("vmstat", "pgscan_kswapd 0\npswpin 0\npswpout " + std::to_string(*pswp) + "\n");
      return 5.0;
    };
    c.expect = [pct, totalKb, bpsThr](const std::vector<Sample>& h) {
      size_t n = h.size() - 1;
      int f = h[n].letter % 4;
      long long thr = totalKb * pct / 100;
      long long total = f == 3 ? 0 : totalKb;
      long long freeKb = f == 0 ? thr - 1 : f == 1 ? thr : thr + 1;
      if (freeKb < 0) freeKb = 0;
      if (freeKb > totalKb) freeKb = totalKb;
      if (f == 3) freeKb = 0;
      bool low = f == 3 ? false : (freeKb * 1024) < (total * 1024 * pct / 100);
      if (f == 3) low = 0 < 0;
      if (bpsThr > 0) {
        // swap-out rate of the last interval: the first tick has no previous sample -> 0
        double bps = (n >= 1 && (h[n].letter / 4)) ? 1000 * 4096.0 / 5 : 0;
        return low && bps >= (double)bpsThr;
      }
      return low;
    };
    c.letterName = [](int l) {
      static const char* fn[] = {"free<thr", "free=thr", "free>thr", "no-swap"};
      return std::string(fn[l % 4]) + (l / 4 ? ",swapping-out" : ",quiet");
    };
    c.dtOf = [](int) { return 5.0; };
    cases.push_back(c);
  }
  void addExists(const std::string& pattern, bool negate, int T) {
    Case c;
    c.name = "exists cgroup=" + pattern + " negate=" + (negate ? "true" : "false");
    c.plugin = "exists";
    c.argsJson = "\"cgroup\":\"" + pattern + "\",\"negate\":\"" + (negate ? "true" : "false") + "\"";
    c.nLetters = 8;  // e/a, e/b, e/ab present or not
    c.T = T;
    c.setup = [] { world::mkcg("e"); };
    c.apply = [](int l, int) {
      const char* n[] = {"e/a", "e/b", "e/ab"};
      for (int k = 0; k < 3; k++) {
        bool want = l >> k & 1;
        if (want && !world::exists(n[k])) world::mkcg(n[k]);
        if (!want && world::exists(n[k])) world::rmcg(n[k]);
      }
      // a plain FILE with a matching name must not count
      world::setFile("e", "az", "x");
      return 1.0;
    };
    c.expect = [pattern, negate](const std::vector<Sample>& h) {
      int l = h.back().letter;
      bool a = l & 1, b = l & 2, ab = l & 4;
      bool ex = false;
      if (pattern == "e/a") ex = a;
      if (pattern == "e/a*") ex = a || ab;
      if (pattern == "e/a,e/b") ex = a || b;
      if (pattern == "e/?") ex = a || b;
      if (pattern == "e/az") ex = false;
      return ex != negate;
    };
    c.letterName = [](int l) { return std::string("{") + (l & 1 ? "a " : "") + (l & 2 ? "b " : "") + (l & 4 ? "ab " : "") + "}"; };
    c.dtOf = [](int) { return 1.0; };
    cases.push_back(c);
  }
  void addNrDying(bool lte, int T) {
    Case c;
    c.name = std::string("nr_dying_descendants cgroup=d/* count=10 lte=") + (lte ? "true" : "false");
    c.plugin = "nr_dying_descendants";
    c.argsJson = std::string("\"cgroup\":\"d/*\",\"count\":\"10\",\"lte\":\"") + (lte ? "true" : "false") + "\"";
    c.nLetters = 12;  // a in {9,10,11} x b in {absent, 9, 10, 11}
    c.T = T;
    c.setup = [] { world::mkcg("d/a"); };
    c.apply = [](int l, int) {
      int a = 9 + l % 3, b = l / 3;
      world::setFile("d/a", "cgroup.stat", "nr_descendants 3\nnr_dying_descendants " + std::to_string(a) + "\n");
      if (b == 0) {
        if (world::exists("d/b")) world::rmcg("d/b");
      } else {
        world::mkcg("d/b");
        world::setFile("d/b", "cgroup.stat", "nr_descendants 3\nnr_dying_descendants " + std::to_string(8 + b) + "\n");
      }
      return 1.0;
    };
    c.expect = [lte](const std::vector<Sample>& h) {
      int l = h.back().letter;
      std::vector<int> ns = {9 + l % 3};
      if (l / 3) ns.push_back(8 + l / 3);
      for (int n : ns)
        if (lte ? n <= 10 : n > 10) return true;
      return false;
    };
    c.letterName = [](int l) { return "a=" + std::to_string(9 + l % 3) + (l / 3 ? ",b=" + std::to_string(8 + l / 3) : ",b-absent"); };
    c.dtOf = [](int) { return 1.0; };
    cases.push_back(c);
  }

  void configure(const std::string& tier, uint64_t) override {
    tier_ = tier;
    bool th = tier == "thorough";
    int T = th ? 5 : 4;
    for (int d : {0, 2, 4}) addPressureAbove("memory", d, T);
    for (int d : {0, 2}) addPressureAbove("io", d, th ? 4 : 3);
    for (int d : {0, 2}) addPressureAboveMulti(d, th ? 4 : 3);
    // thresholds given as suffix combination, bare megabytes, percent of MemTotal (16 GiB), plain suffix
    for (int d : {0, 2, 4}) addMemoryAbove("1.5G 32K", GiB * 3 / 2 + 32768, false, d, th ? 4 : 3);
    addMemoryAbove("1536", 1536LL << 20, false, 2, 3);
    addMemoryAbove("10%", 16LL * GiB * 10 / 100, false, 2, 3);
    addMemoryAbove("3G", 3 * GiB, false, 0, 3);
    addMemoryAbove("5G", 5 * GiB, true, 2, 3);
    // ticks that are not a whole number of seconds apart (0.6 / 1 / 1.6 s): 'at least duration seconds' must not be rounded
    for (int d : {1, 2}) addMemoryAbove("3G", 3 * GiB, false, d, th ? 5 : 4, true);
    for (int d : {1, 2}) addPressureAbove("memory", d, th ? 5 : 4, true);
    for (int d : {0, 2, 3}) addVanishing("pressure_above", d, th ? 6 : 5);
    for (int d : {0, 2, 3}) addVanishing("memory_above", d, th ? 6 : 5);
    for (int d : {0, 2}) addRisingBeyond(d, th ? 4 : 3);
    for (int d : {0, 2, 4}) addMemoryReclaim(d, th ? 5 : 4);
    for (int d : {0, 2}) addMemoryReclaimVanish(d, th ? 6 : 5);
    for (int pct : {0, 15, 100}) addSwapFree(pct, -1, 2);
    addSwapFree(15, 800000, 3);
    addSwapFree(15, 900000, 3);
    for (const char* p : {"e/a", "e/a*", "e/a,e/b", "e/?", "e/az"})
      for (int neg = 0; neg < 2; neg++) addExists(p, neg, 2);
    for (int lte = 0; lte < 2; lte++) addNrDying(lte, 2);
    for (size_t ci = 0; ci < cases.size(); ci++) {
      size_t n = 1;
      for (int k = 0; k < cases[ci].T; k++) n *= cases[ci].nLetters;
      histCount.push_back(n);
      for (size_t h = 0; h < n; h += kChunk) items.push_back({(int)ci, h});
    }
  }
  size_t count() override { return items.size(); }
  std::string histStr(const Case& c, size_t h) {
    std::string s;
    for (int k = 0; k < c.T; k++) {
      s += (k ? " | " : "") + c.letterName((int)(h % c.nLetters));
      h /= c.nLetters;
    }
    return s;
  }
  std::string describe(size_t i) override {
    auto& c = cases[items[i].first];
    return c.name + ": histories #" + std::to_string(items[i].second) + ".. of all " + std::to_string(histCount[items[i].first]) + " histories of length " +
           std::to_string(c.T) + " over " + std::to_string(c.nLetters) + " letters, e.g. [" + histStr(c, items[i].second + 1) + "]";
  }
  std::string klass(size_t i) override { return cases[items[i].first].plugin; }
  void workerInit() override { sim::processInit(); }

  void run(size_t idx, vr::Result& r, bool verbose) override {
    const Case& c = cases[items[idx].first];
    size_t h0 = items[idx].second, h1 = std::min(histCount[items[idx].first], h0 + kChunk);
    std::string json = "{\"rulesets\":[{\"name\":\"RD\",\"post_action_delay\":\"0\",\"detectors\":[[\"g\",{\"name\":\"verif_wrap\",\"args\":{\"wrap\":\"" + c.plugin +
                       "\",\"id\":\"D\"," + c.argsJson + "}}]],\"actions\":[{\"name\":\"verif_scripted\",\"args\":{\"id\":\"act\"}}]}]}";
    size_t fired = 0;
    for (size_t h = h0; h < h1; h++) {
      std::vector<int> letters;
      size_t x = h;
      for (int k = 0; k < c.T; k++) {
        letters.push_back((int)(x % c.nLetters));
        x /= c.nLetters;
      }
      vr::note(c.name + " history " + histStr(c, h));
      sim::resetScript();
      vb::resetLog();
      vb::clockNs = vb::kEpochNs;
      world::reset();
      c.setup();
      std::string err;
      auto o = sim::make(json, &err, 5);
      if (!o) {
        r.violate("C08|harness|config-rejected", c.name + ": " + err + "\n" + json);
        return;
      }
      sim::decide = [](const std::string&, const std::string&) { return 0; };
      std::vector<Sample> hist;
      double now = 0;
      std::vector<double> dts2;
      for (int k = 0; k < c.T; k++) dts2.push_back(c.dtOf(letters[k]));
      auto out = sim::runTicks(
          *o, c.T, [&](int k) { c.apply(letters[k - 1], k); }, [&](int k) { return dts2[k - 1]; });
      if (out.escaped) {
        r.violate("C08|" + c.plugin + "|uncaught:" + out.excType, c.name + " history [" + histStr(c, h) + "]\n" + out.excWhat + "\n" + out.excFrames);
        continue;
      }
      for (int k = 1; k <= c.T; k++) {
        now += dts2[k - 1];
        hist.push_back({now, letters[k - 1]});
        int ret = -1;
        bool actRan = false;
        for (auto& cl : sim::calls) {
          if (cl.tick != k || cl.method != "run") continue;
          if (cl.id == "D") ret = cl.ret;
          if (cl.id == "act") actRan = true;
        }
        bool want = c.expect(hist);
        if (ret < 0 || (ret == 0) != want) {
          std::string hs;
          double t = 0;
          for (int q = 0; q < k; q++) {
            t += dts2[q];
             hs += "  t=" + secs(t) + "s " + c.letterName(letters[q]) + "\n";
          }
          r.violate("C08|" + c.plugin + "|model-mismatch:" + (want ? "should-fire" : "should-not-fire"),
                    c.name + "\nat tick " + std::to_string(k) + " the detector returned " + (ret < 0 ? "(not run)" : ret == 0 ? "CONTINUE" : "STOP") +
                        " but the documented predicate over the history is " + (want ? "true" : "false") + "\nhistory:\n" + hs);
          break;
        }
        if (actRan != want) {
          r.violate("C08|" + c.plugin + "|model-mismatch:chain", c.name + ": action chain ran=" + std::to_string(actRan) + " although detector verdict is " + std::to_string(want));
          break;
        }
        fired += want;
      }
      r.nontrivial(c.name + "#" + std::to_string(h));
      if (verbose) printf("%s [%s]\n", c.name.c_str(), histStr(c, h).c_str());
    }
    vr::note("");
    r.evals = (h1 - h0);
    r.counters["ticks_with_detector_firing"] += (long long)fired;
    r.counters["detector_runs"] += (long long)((h1 - h0) * c.T);
  }
  std::string rule() override {
    return "for each detector configuration ALL histories of length T over its letter alphabet are executed through Oomd::run with the detector alone "
           "in a group: pressure_above (memory/io, duration 0/2/4; value below/equal/above threshold x clock advance 1/2/5 s; plus two cgroups with one "
           "appearing and disappearing; plus a lone wildcard match that may be absent), memory_above (threshold as '1.5G 32K', bare MB, '10%', '3G', threshold_anon; value thr-1/thr/thr+1 x advance; largest of two "
           "cgroups), pressure_rising_beyond (avg60 around threshold x avg10 40/60/80/95 incl. fast falls x advance), memory_reclaim (pgscan grows or not x "
           "advance 1/2/5, duration 0/2/4, sum over two cgroups; plus a wildcard match that is removed / re-created so that the watched sum drops), swap_free (free below/equal/above pct, no swap, swap-out rate, pct 0/15/100), exists (5 "
           "patterns x negate over all subsets of {a,b,ab} + a matching plain file), nr_dying_descendants (count-1/count/count+1 for two cgroups, lte); oracle: the "
           "documented predicate evaluated over the WHOLE history at every tick, and the action chain runs iff it holds; non-trivial = distinct history";
  }
  Json::Value bounds() override {
    Json::Value b;
    b["history_length"] = tier_ == "thorough" ? 5 : 4;
    b["cases"] = (Json::UInt64)cases.size();
    return b;
  }
  std::vector<std::string> assumptions() override {
    return {"memory_reclaim: the sample before the first tick is 0 (fresh counter)", "pressure_rising_beyond: the 10 s value before the first tick counts as 100 (header default)",
            "with several cgroups the values are chosen Pareto-ordered so 'most pressure' is unambiguous"};
  }
};
}  // namespace
int main(int argc, char** argv) {
  C08 d;
  return vr::main(argc, argv, d);
}
