// C11 - Ruleset-level cgroup. Explicit-state BFS over histories of matching cgroups being
// created / removed / (un)tagged between ticks on the simulated cgroupfs, with scripted
// detectors and actions per instance, through the real Oomd::run (Ruleset::runOnce wildcard
// branch).  Oracle: one independent engine model per matching cgroup + instance identity.
#include <deque>
#include <map>
#include <set>
#include <sstream>

#include "common/enginemc.h"
#include "common/world.h"

namespace {

struct Variant {
  std::string name;
  int nNames;        // matching cgroups in the universe (grp/m1..)
  int nActions;
  int delay;
  bool filter;       // xattr_filter set
  int detArity;      // 1 = always fire, 2 = {fire, not}
  int actArity;      // 2 = {CONTINUE, STOP}, 3 = + ASYNC_PAUSED
  int maxDepth;
  std::vector<int> dts;
  int ownDelay = -1;  // plugin-level post_action_delay of the first action (requested through the invoking ruleset, like kill plugins do)
  bool ownCgroup = false;  // the LAST action names its own cgroup ("elsewhere"): it must be handed that one, not the matched cgroup
};
const char* kTag = "user.verif_rc";

struct Step {
  unsigned existMask, tagMask;  // state AFTER the step
  int dt;
  std::vector<int> choices;
};
using Hist = std::vector<Step>;
std::string histStr(const Hist& h) {
  std::ostringstream o;
  for (auto& s : h) {
    o << "(exist=" << s.existMask << ",tag=" << s.tagMask << ",+" << s.dt << "s:";
    for (auto c : s.choices) o << "CSA"[c];
    o << ")";
  }
  return o.str();
}

struct C11 : vr::Driver {
  std::vector<Variant> vs;
  std::string tier_;
  std::string id() override { return "C11"; }
  void configure(const std::string& tier, uint64_t) override {
    tier_ = tier;
    bool th = tier == "thorough";
    vs.push_back({"two-names-full", 2, 1, 2, false, 2, 3, th ? 8 : 4, {1, 2}});
    vs.push_back({"three-names-stop", 3, 1, 0, false, 1, 2, th ? 7 : 3, {1}});
    vs.push_back({"filter", 2, 1, 2, true, 2, 2, th ? 7 : 3, {1, 2}});
    vs.push_back({"chain2-async", 2, 2, 1, false, 1, 3, th ? 7 : 3, {1}});
    vs.push_back({"three-names-async", 3, 1, 1, false, 1, 3, th ? 6 : 3, {1}});
    if (th) vs.push_back({"filter3", 3, 1, 0, true, 1, 2, 6, {1}});
    if (th) vs.push_back({"four-names-stop", 4, 1, 1, false, 1, 2, 4, {1}});
    // the stopping action carries its own post_action_delay: it must pause the INSTANCE that ran it
    vs.push_back({"plugin-delay-longer", 2, 1, 0, false, 2, 2, th ? 7 : 4, {1, 2}, 2});
    vs.push_back({"plugin-delay-shorter", 2, 1, 3, false, 2, 2, th ? 7 : 4, {1, 2}, 0});
    {
      Variant v{"own-cgroup-action", 2, 2, 0, false, 1, 2, th ? 5 : 3, {1}};
      v.ownCgroup = true;
      vs.push_back(v);
    }
  }
  size_t count() override { return vs.size(); }
  std::string describe(size_t i) override {
    auto& v = vs[i];
    std::ostringstream o;
    o << v.name << ": pattern grp/m* over {";
    for (int k = 1; k <= v.nNames; k++) o << "m" << k << ",";
    o << "x1(non-matching)} actions=" << v.nActions << " delay=" << v.delay << (v.ownDelay >= 0 ? " action a0 post_action_delay=" + std::to_string(v.ownDelay) : std::string()) << " xattr_filter=" << (v.filter ? kTag : "-")
      << " detector arity " << v.detArity << " action arity " << v.actArity << " depth<=" << v.maxDepth;
    return o.str();
  }
  std::string klass(size_t) override { return "rscgroup"; }
  void workerInit() override { sim::processInit(); }

  emc::Cfg cfgFor(const Variant& v) {
    emc::Cfg c;
    emc::RulesetCfg rs;
    rs.name = "RC";
    rs.delay = v.delay;
    rs.groupNames = {"g0"};
    rs.groups = {{"d0"}};
    for (int a = 0; a < v.nActions; a++) rs.actions.push_back({"a" + std::to_string(a)});
    if (v.ownCgroup) {
      auto& a = rs.actions.back();
      a.json = "{\"name\":\"verif_scripted\",\"args\":{\"id\":\"" + a.id + "\",\"cgroup\":\"elsewhere\"}}";
    }
    if (v.ownDelay >= 0) {
      rs.actions[0].ownDelay = v.ownDelay;
      rs.actions[0].json = "{\"name\":\"verif_scripted\",\"args\":{\"id\":\"a0\",\"post_action_delay\":\"" + std::to_string(v.ownDelay) + "\"}}";
    }
    c.rulesets.push_back(rs);
    return c;
  }
  std::string jsonFor(const Variant& v) {
    std::string j = cfgFor(v).json();
    // splice the ruleset-level cgroup (+ filter) in front of "detectors"
    std::string add = std::string("\"cgroup\":\"grp/m*\",") + (v.filter ? std::string("\"xattr_filter\":\"") + kTag + "\"," : "");
    auto p = j.find("\"detectors\"");
    j.insert(p, add);
    return j;
  }

  struct Exec {
    std::string verdict;  // "" ok, else "rule: text"
    std::string key;
    std::vector<int> drawn;
    bool escaped = false;
    std::string exc;
  };

  Exec execute(const Variant& v, const Hist& H, int newDt, unsigned newExist, unsigned newTag, ve::Chooser* ch) {
    Exec ex;
    sim::resetScript();
    vb::resetLog();
    vb::clockNs = vb::kEpochNs;
    world::reset();
    world::mkcg("grp");
    world::mkcg("grp/x1");
    std::string err;
    auto o = sim::make(jsonFor(v), &err, 5);
    if (!o) {
      ex.verdict = "harness: config rejected " + err;
      return ex;
    }
    std::set<std::string> templateInst;
    for (auto& c : sim::calls) templateInst.insert(c.instance);
    size_t tickNo = 0, pos = 0;
    auto draw = [&](int arity) -> int {
      size_t t = (size_t)sim::curTick - 1;
      if (t != tickNo) {
        tickNo = t;
        pos = 0;
      }
      if (t < H.size()) {
        if (pos >= H[t].choices.size()) {
          fprintf(stderr, "c11: replay consumed more choices than recorded\n");
          abort();
        }
        return H[t].choices[pos++];
      }
      if (arity <= 1) return 0;
      int c = ch->choose(arity);
      ex.drawn.push_back(c);
      return c;
    };
    sim::decide = [&](const std::string& id, const std::string&) -> int {
      bool det = id[0] == 'd';
      int a = det ? v.detArity : v.actArity;
      int c = draw(a);
      if (a <= 1 && (size_t)sim::curTick - 1 >= H.size()) ex.drawn.push_back(0);
      return c;
    };
    unsigned curExist = 0, curTag = 0;
    auto apply = [&](unsigned e, unsigned t) {
      for (int k = 0; k < v.nNames; k++) {
        std::string rel = "grp/m" + std::to_string(k + 1);
        bool was = curExist >> k & 1, now = e >> k & 1;
        if (was && !now) world::rmcg(rel);
        if (!was && now) world::mkcg(rel);
        bool wasT = (curTag >> k & 1) && was && now, nowT = t >> k & 1;  // a removed cgroup loses its xattrs
        if (now && nowT && !(wasT)) world::setXattr(rel, kTag, "1");
        if (now && !nowT && wasT) world::rmXattr(rel, kTag);
      }
      curExist = e;
      curTag = t;
    };
    auto out = sim::runTicks(
        *o, (int)H.size() + 1,
        [&](int k) {
          if ((size_t)k <= H.size())
            apply(H[k - 1].existMask, H[k - 1].tagMask);
          else
            apply(newExist, newTag);
        },
        [&](int k) { return (double)((size_t)k <= H.size() ? H[k - 1].dt : newDt); });
    if (out.escaped) {
      ex.escaped = true;
      ex.exc = out.excType + ": " + out.excWhat + "\n" + out.excFrames;
      return ex;
    }
    // ---- oracle --------------------------------------------------------------------------
    emc::Cfg cfg = cfgFor(v);
    // instance token -> cgroup: from detector run calls (ruleset cgroup in context) and action init records
    std::map<std::string, std::string> cgOf;
    std::string lastInitCg;  // plugins of one per-cgroup instance are created together, the actions in chain order
    for (auto& c : sim::calls) {
      if (templateInst.count(c.instance)) continue;
      if (c.method == "init" && !c.cgroupArg.empty()) {
        if (v.ownCgroup && c.cgroupArg == "elsewhere") {
          // the action that names its own cgroup belongs to the instance whose other plugins were just created
          if (!lastInitCg.empty()) cgOf[c.instance] = lastInitCg;
        } else {
          cgOf[c.instance] = "/" + c.cgroupArg;
          lastInitCg = "/" + c.cgroupArg;
        }
      }
      if (c.method == "run" && c.id[0] == 'd' && c.rulesetCgroup != "-") cgOf.emplace(c.instance, c.rulesetCgroup);
    }
    std::map<std::string, std::unique_ptr<emc::Model>> models;       // live instance models by cgroup
    std::map<std::string, std::set<std::string>> tokensOf;           // live instance tokens by cgroup
    std::set<std::string> everTokens;
    double now = 0;
    Hist all = H;
    all.push_back({newExist, newTag, newDt, {}});
    for (int t = 1; t <= (int)all.size(); t++) {
      now += all[t - 1].dt;
      unsigned em = all[t - 1].existMask, tm = all[t - 1].tagMask;
      std::set<std::string> live;
      for (int k = 0; k < v.nNames; k++)
        if ((em >> k & 1) && (!v.filter || (tm >> k & 1))) live.insert("/grp/m" + std::to_string(k + 1));
      // drop state of instances that are not live at this tick
      for (auto it = models.begin(); it != models.end();)
        if (!live.count(it->first)) {
          tokensOf.erase(it->first);
          it = models.erase(it);
        } else
          ++it;
      std::map<std::string, std::vector<sim::Call>> per;
      for (auto& c : sim::calls) {
        if (c.tick != t || c.method == "init") continue;
        if (templateInst.count(c.instance)) {
          if (c.method == "run") {
            ex.verdict = "template-evaluated: the pattern ruleset's own plugin " + c.id + " ran at tick " + std::to_string(t);
            return ex;
          }
          continue;  // prerun of the template's plugins is not demanded either way
        }
        auto it = cgOf.find(c.instance);
        if (it == cgOf.end()) {
          ex.verdict = "harness: cannot attribute instance " + c.instance;
          return ex;
        }
        per[it->second].push_back(c);
      }
      for (auto& kv : per)
        if (!live.count(kv.first)) {
          // an instance whose cgroup vanished since the last tick may still be prerun before it is discarded;
          // what must not happen is that it is EVALUATED (detectors / actions run)
          bool ran = false;
          for (auto& c : kv.second) ran |= c.method == "run";
          if (!ran) continue;
          ex.verdict = "evaluated-nonmatching: " + kv.first + " was evaluated at tick " + std::to_string(t) +
                       " although it does not exist / match / carry the filter attribute";
          return ex;
        }
      for (auto& cg : live) {
        auto& calls = per[cg];
        bool fresh = !models.count(cg);
        if (fresh) {
          models[cg] = std::make_unique<emc::Model>(cfg);
          // fresh state => plugin instances never seen before
          std::set<std::string> toks;
          for (auto& c : calls) toks.insert(c.instance);
          for (auto& tk : toks)
            if (everTokens.count(tk)) {
              ex.verdict = "fresh-state: " + cg + " (re)appeared at tick " + std::to_string(t) + " but is served by old instance " + tk;
              return ex;
            }
          tokensOf[cg] = toks;
          everTokens.insert(toks.begin(), toks.end());
        } else {
          for (auto& c : calls)
            if (!tokensOf[cg].count(c.instance)) {
              ex.verdict = "persistent-state: " + cg + " existed at every tick but tick " + std::to_string(t) +
                           " used a different plugin instance " + c.instance + " for " + c.id;
              return ex;
            }
        }
        // uuid bookkeeping is per model; names: actions see ruleset RC / group g0
        std::string vtext = models[cg]->tick(now, calls, 0, calls.size());
        if (!vtext.empty()) {
          ex.verdict = vtext.substr(0, vtext.find(':')) + ": instance " + cg + " tick " + std::to_string(t) + ": " + vtext;
          return ex;
        }
        for (auto& c : calls) {
          if (c.method != "run") continue;
          if (c.id[0] == 'd' && c.rulesetCgroup != cg) {
            ex.verdict = "context-cgroup: detector of " + cg + " ran with ruleset cgroup " + c.rulesetCgroup;
            return ex;
          }
          // an action that names its own cgroup keeps it; every other action is handed the matched cgroup
          bool namesOwn = v.ownCgroup && c.id == "a" + std::to_string(v.nActions - 1);
          if (namesOwn && c.cgroupArg != "elsewhere") {
            ex.verdict = "action-target: action " + c.id + " of " + cg + " is configured with cgroup=elsewhere but was initialised with cgroup=" + c.cgroupArg;
            return ex;
          }
          if (c.id[0] == 'a' && (c.target != cg || (!namesOwn && "/" + c.cgroupArg != cg))) {
            ex.verdict = "action-target: action of " + cg + " ran with target " + c.target + " cgroup arg " + c.cgroupArg;
            return ex;
          }
        }
      }
    }
    // private state conformance: instance map keys == live set (skipped if the members are not readable any more)
    [&](auto& oo) {
      if constexpr (requires { oo.engine_->rulesets_[0].ruleset->runnable_rulesets_.begin()->first.substr(0); }) {
        auto& rs = *oo.engine_->rulesets_[0].ruleset;
        std::set<std::string> keys, want;
        for (auto& kv : rs.runnable_rulesets_) keys.insert(kv.first.substr(world::cgfs().size()));
        for (auto& kv : models) want.insert(kv.first);
        if (keys != want) {
          std::string a, b;
          for (auto& k : keys) a += k + " ";
          for (auto& k : want) b += k + " ";
          ex.verdict = "state-conformance: engine keeps instances {" + a + "} expected {" + b + "}";
        }
      }
    }(*o);
    if (!ex.verdict.empty()) return ex;
    std::ostringstream key;
    key << "E" << newExist << "T" << (v.filter ? newTag : 0u);
    for (auto& kv : models) key << kv.first << models[kv.first]->key(now);
    ex.key = key.str();
    return ex;
  }

  void run(size_t vi, vr::Result& r, bool verbose) override {
    const Variant& v = vs[vi];
    std::map<std::string, Hist> seen;
    std::deque<std::string> frontier;
    seen["init"] = {};
    frontier.push_back("init");
    size_t transitions = 0;
    int depthMax = 0;
    bool capped = false;
    std::set<std::string> outcomes;
    while (!frontier.empty()) {
      Hist H = seen[frontier.front()];
      frontier.pop_front();
      if ((int)H.size() >= v.maxDepth) {
        capped = true;
        continue;
      }
      unsigned full = (1u << v.nNames) - 1;
      unsigned curE = H.empty() ? 0 : H.back().existMask;
      unsigned curT = H.empty() ? 0 : H.back().tagMask;
      for (unsigned e = 0; e <= full; e++)
        for (unsigned tg = 0; tg <= (v.filter ? full : 0u); tg++) {
          if (v.filter && (tg & ~e)) continue;            // only existing cgroups can carry the attribute
          // an attribute does not survive removal: a cgroup (re)created in this step starts untagged unless tagged now
          (void)curT;
          (void)curE;
          for (int dt : v.dts) {
            ve::exploreAll([&](ve::Chooser& ch) {
              transitions++;
              Exec ex = execute(v, H, dt, e, tg, &ch);
              Hist H2 = H;
              H2.push_back({e, tg, dt, ex.drawn});
              std::string where = describe(vi) + "\nhistory " + histStr(H2);
              if (ex.escaped) {
                r.violate("C11|rscgroup|uncaught", where + "\n" + ex.exc);
                return;
              }
              if (!ex.verdict.empty()) {
                std::string rule = ex.verdict.substr(0, ex.verdict.find(':'));
                std::ostringstream log;
                for (auto& c : sim::calls)
                  if (c.method != "init")
                    log << "  tick" << c.tick << " " << c.id << "." << c.method << " ret=" << "CSA"[c.ret] << " inst=" << c.instance
                        << " rscg=" << c.rulesetCgroup << " target=" << c.target << "\n";
                r.violate("C11|rscgroup|" + rule, where + "\n" + ex.verdict + "\ncall log:\n" + log.str());
                return;
              }
              outcomes.insert(ex.key + "#" + std::to_string(sim::calls.size()));
              if (!seen.count(ex.key)) {
                seen[ex.key] = H2;
                frontier.push_back(ex.key);
                depthMax = std::max(depthMax, (int)H2.size());
              }
              if (verbose) printf("  %s -> %s\n", histStr(H2).c_str(), ex.key.c_str());
            });
          }
        }
    }
    r.evals = transitions;
    r.counters["states"] += (long long)seen.size();
    r.counters["transitions"] += (long long)transitions;
    r.counters["max_depth"] = depthMax;
    r.counters["variants_depth_capped"] += capped ? 1 : 0;
    r.counters["variants_fixpoint"] += capped ? 0 : 1;
    for (auto& o : outcomes) r.nontrivial(v.name + o);
  }
  std::string rule() override {
    return "per variant: BFS over (set of existing matching cgroups, set carrying the filter attribute, per-instance engine "
           "state); one transition = one environment step (any subset of the universe created/removed/(un)tagged, "
           "simultaneous removals included) + one real Oomd::run tick with every vector of scripted detector/action answers; "
           "oracle per matching cgroup: exactly-once evaluation with that cgroup as ruleset cgroup / action target, same plugin "
           "instances while the cgroup exists at every tick, never-seen-before instances after an absent tick, prerun every "
           "tick, independent pause/suspension per instance (reference engine model), template never evaluated, non-matching "
           "cgroup never evaluated, ASan-clean discard; non-trivial = distinct (state, calls) outcome";
  }
  Json::Value bounds() override {
    Json::Value b;
    for (auto& v : vs) b["variants"].append(v.name + " depth<=" + std::to_string(v.maxDepth));
    b["universe"] = "grp/m1..m3 matching 'grp/m*', grp/x1 not matching";
    b["not_explored"] = "removal and re-creation inside one between-tick step (statement leaves identity open there)";
    return b;
  }
  std::vector<std::string> assumptions() override {
    return {"order in which matching cgroups are evaluated within a tick is left open (calls are grouped per instance)",
            "prerun of the pattern ruleset's own template plugins is not demanded either way"};
  }
  double scenarioTimeoutSec() override { return 900; }
};
}  // namespace
int main(int argc, char** argv) {
  C11 d;
  return vr::main(argc, argv, d);
}
