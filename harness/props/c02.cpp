// C02 - Engine firing rule. Explicit-state exploration to fixpoint of the real engine driven
// through Oomd::run with scripted plugins; oracle = reference engine model (DESIGN.md C02, A.1).
#include "common/enginemc.h"

namespace {
struct C02 : vr::Driver {
  std::vector<emc::Cfg> cfgs;
  std::string tier_;
  std::string id() override { return "C02"; }
  void configure(const std::string& tier, uint64_t) override {
    tier_ = tier;
    bool th = tier == "thorough";
    int maxR = th ? 3 : 2, maxA = th ? 3 : 2, maxDet = th ? 5 : 4;
    std::vector<int> delays = th ? std::vector<int>{0, 2, 4} : std::vector<int>{0, 2};
    const char* sil[] = {"", "engine", "plugins", "engine,plugins"};
    for (int R = 1; R <= maxR; R++)
      for (int G = 1; G <= 2; G++)
        for (int D = 1; D <= 2; D++)
          for (int A = 1; A <= maxA; A++)
            for (int s = 0; s < 4; s++)
              for (int d : delays) {
                if (R * G * D > maxDet) continue;
                if (s != 0 && R * G * D * A > 4) continue;  // silence-logs crossed with the small shapes
                emc::Cfg c;
                for (int r = 0; r < R; r++) {
                  emc::RulesetCfg rs;
                  rs.name = "R" + std::to_string(r);
                  // second ruleset gets a different delay so the two pauses cannot be confused
                  rs.delay = r == 0 ? d : (d == 0 ? 2 : 0);
                  rs.silence = sil[s];
                  for (int g = 0; g < G; g++) {
                    rs.groupNames.push_back(rs.name + "g" + std::to_string(g));
                    std::vector<std::string> ds;
                    for (int k = 0; k < D; k++) ds.push_back(rs.name + "g" + std::to_string(g) + "d" + std::to_string(k));
                    rs.groups.push_back(ds);
                  }
                  for (int a = 0; a < A; a++) rs.actions.push_back({rs.name + "a" + std::to_string(a)});
                  c.rulesets.push_back(rs);
                }
                cfgs.push_back(c);
              }
    // heaviest configurations first (longest-processing-time scheduling across workers)
    auto cost = [](const emc::Cfg& c) {
      double x = 1;
      for (auto& rs : c.rulesets) {
        for (auto& g : rs.groups) x *= std::pow(3.0, (double)g.size());
        x *= std::pow(2.5, (double)rs.actions.size()) * (rs.effDelay() + 1);
      }
      return x;
    };
    std::stable_sort(cfgs.begin(), cfgs.end(), [&](const emc::Cfg& a, const emc::Cfg& b) { return cost(a) > cost(b); });
  }
  size_t count() override { return cfgs.size(); }
  std::string describe(size_t i) override { return "config " + cfgs[i].brief() + " json=" + cfgs[i].json(); }
  std::string klass(size_t) override { return "engine"; }
  void workerInit() override { sim::processInit(); }
  void run(size_t i, vr::Result& r, bool verbose) override {
    emc::Options opt;
    opt.dts = {1, 3};
    if (tier_ != "thorough")  // quick: only the first detector of a group may answer ASYNC_PAUSED (== CONTINUE)
      opt.arity = [](const std::string& id) { return (id.find('d') != std::string::npos && id.back() != '0') ? 2 : 3; };
    emc::exploreConfig("C02", "engine", cfgs[i], opt, r, verbose);
  }
  std::string rule() override {
    return "per configuration: BFS over reference-model states (per ruleset: remaining pause, suspended action); one "
           "transition = one real Oomd::run tick with every vector of scripted plugin return values "
           "{CONTINUE,STOP,ASYNC_PAUSED} the tick consumes x clock advance {1,3}s; ordered call log and private engine "
           "state compared with the model; non-trivial = distinct (config, resulting state, calls) outcome";
  }
  Json::Value bounds() override {
    Json::Value b;
    b["rulesets"] = tier_ == "thorough" ? 3 : 2;
    b["groups_per_ruleset"] = 2;
    b["detectors_per_group"] = 2;
    b["actions"] = tier_ == "thorough" ? 3 : 2;
    b["clock_advances_s"] = "1,3";
    b["search"] = "fixpoint per configuration (frontier emptied) unless configs_capped>0";
    return b;
  }
  std::vector<std::string> assumptions() override {
    return {"scripted plugins stand for arbitrary plugins: the engine only observes their return values",
            "configurations beyond the enumerated family are not covered"};
  }
};
}  // namespace
int main(int argc, char** argv) {
  C02 d;
  return vr::main(argc, argv, d);
}
