// Free-running ThreadSanitizer pass for the three concurrent islands (C14, C19, C20).  Same kind
// of bodies as the scheduler drivers, but with real threads, real time and seeded jitter, built with
// -fsanitize=thread.  This pass does NOT make the coverage statement (the scheduler does); it
// monitors the assumption that makes sync-point scheduling sufficient: no data race between
// synchronisation points.  Usage: tsan_pass <log|stats|dropin> <iterations> <seed>
#include <dirent.h>
#include <fcntl.h>
#include <sys/socket.h>
#include <sys/stat.h>
#include <sys/un.h>
#include <unistd.h>

#include <atomic>
#include <iostream>
#include <mutex>
#include <random>
#include <sstream>
#include <streambuf>
#include <thread>

#include "oomd/Log.h"
#include "oomd/OomdContext.h"
#include "oomd/Stats.h"
#include "oomd/StatsClient.h"
#include "oomd/config/ConfigCompiler.h"
#include "oomd/config/JsonConfigParser.h"
#include "oomd/dropin/FsDropInService.h"
#include "oomd/engine/Engine.h"

namespace {
thread_local std::mt19937 t_rng;
void jitter(int maxUs) {
  int us = (int)(t_rng() % (unsigned)(maxUs + 1));
  if (us > 0) usleep(us);
}

struct SafeSink : std::streambuf {
  std::mutex m;
  std::string data;
  std::atomic<bool> blocked{false};
  std::streamsize xsputn(const char* s, std::streamsize n) override {
    while (blocked.load()) usleep(50);
    std::lock_guard<std::mutex> l(m);
    data.append(s, (size_t)n);
    return n;
  }
  int overflow(int c) override {
    if (c != EOF) {
      char ch = (char)c;
      xsputn(&ch, 1);
    }
    return c;
  }
};

void runLog(unsigned seed) {
  SafeSink sink;
  std::ostream os(&sink);
  int kfd = ::open("/dev/null", O_WRONLY);
  auto log = Oomd::Log::get_for_unittest(kfd, os, false);
  std::vector<std::thread> ts;
  for (int p = 0; p < 3; p++)
    ts.emplace_back([&, p] {
      t_rng.seed(seed * 31 + p);
      if (p == 0) Oomd::LogStream(*log) << Oomd::LogStream::Control::DISABLE;
      for (int m = 0; m < 6; m++) {
        jitter(200);
        if (m % 2)
          log->debugLog("P" + std::to_string(p) + "M" + std::to_string(m) + std::string((m == 3 ? 400 * 1024 : 40), 'x') + "\n");
        else
          Oomd::LogStream(*log) << "P" << p << "M" << m;
        if (m == 4) log->kmsgLog("record", "oomd kill");
      }
      if (p == 0) Oomd::LogStream(*log) << Oomd::LogStream::Control::ENABLE;
    });
  std::thread env([&] {
    t_rng.seed(seed * 77);
    for (int k = 0; k < 3; k++) {
      jitter(300);
      sink.blocked = true;
      jitter(300);
      sink.blocked = false;
    }
  });
  for (auto& t : ts) t.join();
  env.join();
  log.reset();
}

void runStats(unsigned seed, int iter) {
  std::string path = "/dev/shm/tsanstats." + std::to_string(getpid());
  auto stats = Oomd::Stats::get_for_unittest(path);
  std::vector<std::thread> ts;
  for (int p = 0; p < 3; p++)
    ts.emplace_back([&, p] {
      t_rng.seed(seed * 13 + p);
      for (int k = 0; k < 20; k++) {
        jitter(100);
        switch ((t_rng() + p) % 4) {
          case 0: stats->increment("a", 1); break;
          case 1: stats->set("b", k); break;
          case 2: stats->reset(); break;
          case 3: (void)stats->getAll(); break;
        }
      }
    });
  for (int cidx = 0; cidx < 3; cidx++)
    ts.emplace_back([&, cidx] {
      t_rng.seed(seed * 17 + cidx);
      for (int k = 0; k < 4; k++) {
        jitter(300);
        if ((cidx + k) % 3 == 0) {
          Oomd::StatsClient cl(path);
          (void)cl.getStats();
        } else if ((cidx + k) % 3 == 1) {
          Oomd::StatsClient cl(path);
          (void)cl.resetStats();
        } else {
          // raw client that disconnects early
          int fd = ::socket(AF_UNIX, SOCK_STREAM, 0);
          sockaddr_un a{};
          a.sun_family = AF_UNIX;
          strcpy(a.sun_path, path.c_str());
          if (::connect(fd, (sockaddr*)&a, sizeof a) == 0) (void)!::write(fd, "g\n", 2);
          ::close(fd);
        }
      }
    });
  // one stalling client (server's 2 s receive timeout in real time) every 10th iteration only
  int stallFd = -1;
  if (iter % 10 == 0) {
    stallFd = ::socket(AF_UNIX, SOCK_STREAM, 0);
    sockaddr_un a{};
    a.sun_family = AF_UNIX;
    strcpy(a.sun_path, path.c_str());
    if (::connect(stallFd, (sockaddr*)&a, sizeof a) != 0) {
      ::close(stallFd);
      stallFd = -1;
    }
  }
  for (auto& t : ts) t.join();
  stats.reset();
  if (stallFd >= 0) ::close(stallFd);
  ::unlink(path.c_str());
}

void rmrf(const std::string& path) {
  struct stat st;
  if (lstat(path.c_str(), &st) != 0) return;
  if (S_ISDIR(st.st_mode)) {
    if (DIR* d = opendir(path.c_str())) {
      while (struct dirent* e = readdir(d)) {
        std::string n = e->d_name;
        if (n != "." && n != "..") rmrf(path + "/" + n);
      }
      closedir(d);
    }
    rmdir(path.c_str());
  } else {
    unlink(path.c_str());
  }
}
void writeFile(const std::string& p, const std::string& d) {
  int fd = ::open(p.c_str(), O_WRONLY | O_CREAT | O_TRUNC, 0644);
  if (fd < 0) return;
  (void)!::write(fd, d.data(), d.size());
  ::close(fd);
}

void runDropin(unsigned seed) {
  const char* base =
      "{\"rulesets\":[{\"name\":\"R1\",\"drop-in\":{\"detectors\":true,\"actions\":true},\"detectors\":[[\"g\",{\"name\":\"continue\",\"args\":{}}]],"
      "\"actions\":[{\"name\":\"continue\",\"args\":{}}]}]}";
  std::string v1 = "{\"rulesets\":[{\"name\":\"R1\",\"actions\":[{\"name\":\"continue\",\"args\":{}}]}]}";
  std::string top = "/dev/shm/tsandrop." + std::to_string(getpid());
  std::string dir = top + "/d";
  rmrf(top);
  mkdir(top.c_str(), 0700);
  mkdir(dir.c_str(), 0700);
  writeFile(dir + "/pre", v1);
  Oomd::Config2::JsonConfigParser parser;
  auto root = parser.parse(base);
  Oomd::PluginConstructionContext cctx("/sys/fs/cgroup");
  auto engine = Oomd::Config2::compile(*root, cctx);
  Oomd::OomdContext ctx;
  auto svc = Oomd::FsDropInService::create("/sys/fs/cgroup", *root, *engine, dir);
  std::thread env([&] {
    t_rng.seed(seed * 5);
    for (int k = 0; k < 12; k++) {
      jitter(400);
      switch (t_rng() % 6) {
        case 0: writeFile(dir + "/a", v1); break;
        case 1: writeFile(dir + "/b", "not json"); break;
        case 2: unlink((dir + "/a").c_str()); break;
        case 3: rename((dir + "/a").c_str(), (dir + "/b").c_str()); break;
        case 4: writeFile(dir + "/.tmp", v1); rename((dir + "/.tmp").c_str(), (dir + "/a").c_str()); break;
        case 5:
          if (k == 7) {
            rmrf(dir);
            jitter(200);
            mkdir(dir.c_str(), 0700);
          }
          break;
      }
    }
  });
  t_rng.seed(seed * 3);
  for (int k = 0; k < 15; k++) {
    jitter(400);
    svc->updateDropIns();
    engine->prerun(ctx);
    engine->runOnce(ctx);
  }
  env.join();
  usleep(2000);
  svc->updateDropIns();
  svc.reset();
  rmrf(top);
}

struct NullBuf : std::streambuf {
  int overflow(int c) override { return c; }
  std::streamsize xsputn(const char*, std::streamsize n) override { return n; }
};
}  // namespace

int main(int argc, char** argv) {
  if (argc < 4) return 2;
  std::string mode = argv[1];
  int iters = atoi(argv[2]);
  unsigned seed = (unsigned)atoi(argv[3]);
  static NullBuf nb;
  // oomd's inline log goes to std::cerr from several threads; TSan reports go to TSAN_OPTIONS log_path, so silence cerr
  std::cerr.rdbuf(&nb);
  Oomd::Log::get();
  for (int i = 0; i < iters; i++) {
    if (mode == "log") runLog(seed + i);
    if (mode == "stats") runStats(seed + i, i);
    if (mode == "dropin") runDropin(seed + i);
  }
  printf("tsan_pass %s: %d runs completed\n", mode.c_str(), iters);
  return 0;
}
