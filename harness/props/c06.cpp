// C06 - Async continuation. Same explicit-state machinery as C02, on a configuration family
// that stresses suspension: chains up to 3 actions with ASYNC_PAUSED possible at every
// position on consecutive ticks, two detector groups (so a DIFFERENT group may fire on the
// resume tick), two rulesets pausing independently, several prekill windows.
#include "common/enginemc.h"

namespace {
struct C06 : vr::Driver {
  std::vector<emc::Cfg> cfgs;
  std::string tier_;
  std::string id() override { return "C06"; }
  void configure(const std::string& tier, uint64_t) override {
    tier_ = tier;
    bool th = tier == "thorough";
    for (int R = 1; R <= 2; R++)
      for (int G = 1; G <= 2; G++)
        for (int A = 1; A <= (th && R == 1 ? 4 : 3); A++)
          for (int d : {0, 2})
            for (int h : {-1, 0, 3}) {
              if (!th && R == 2 && A == 3) continue;   // thorough only: two rulesets x 3-action chains
              if (!th && h == 3 && A == 3) continue;
              emc::Cfg c;
              for (int r = 0; r < R; r++) {
                emc::RulesetCfg rs;
                rs.name = "R" + std::to_string(r);
                rs.delay = r == 0 ? d : 1;
                rs.hookTimeout = r == 0 ? h : -1;
                for (int g = 0; g < G; g++) {
                  rs.groupNames.push_back(rs.name + "g" + std::to_string(g));
                  rs.groups.push_back({rs.name + "g" + std::to_string(g) + "d0"});
                }
                // second ruleset keeps a short chain so the product stays explorable
                int a_n = r == 0 ? A : std::min(A, 2);
                for (int a = 0; a < a_n; a++) rs.actions.push_back({rs.name + "a" + std::to_string(a)});
                c.rulesets.push_back(rs);
              }
              cfgs.push_back(c);
            }
    auto cost = [](const emc::Cfg& c) {
      double x = 1;
      for (auto& rs : c.rulesets) x *= std::pow(2.0, (double)rs.groups.size()) * std::pow(3.0, (double)rs.actions.size());
      return x;
    };
    std::stable_sort(cfgs.begin(), cfgs.end(), [&](const emc::Cfg& a, const emc::Cfg& b) { return cost(a) > cost(b); });
  }
  size_t count() override { return cfgs.size(); }
  std::string describe(size_t i) override { return "config " + cfgs[i].brief() + " json=" + cfgs[i].json(); }
  std::string klass(size_t) override { return "async"; }
  void workerInit() override { sim::processInit(); }
  void run(size_t i, vr::Result& r, bool verbose) override {
    emc::Options opt;
    opt.dts = {1, 3};
    if (tier_ == "thorough") opt.dts = {1, 2, 3};
    // detectors: fire / not (ASYNC==CONTINUE is C02's business); actions: CONTINUE / STOP / ASYNC_PAUSED
    opt.arity = [](const std::string& id) { return id.find('d') != std::string::npos ? 2 : 3; };
    emc::exploreConfig("C06", "async", cfgs[i], opt, r, verbose);
  }
  std::string rule() override {
    return "per configuration: BFS to fixpoint over (remaining pause, suspended action) per ruleset; every tick explores "
           "all detector verdict vectors {fire,not} and all action return sequences {CONTINUE,STOP,ASYNC_PAUSED} x clock "
           "advance {1,3}s; oracle: the suspended plugin INSTANCE is the first action run on the next unpaused tick with "
           "a field-equal ActionContext (ruleset, group, uuid, prekill deadline), CONTINUE resumes at the next action, "
           "no second chain while suspended, fresh uuid afterwards; non-trivial = distinct (config,state,calls) outcome";
  }
  Json::Value bounds() override {
    Json::Value b;
    b["rulesets"] = 2;
    b["groups"] = 2;
    b["actions"] = tier_ == "thorough" ? 4 : 3;
    b["prekill_hook_timeout"] = "default,0,3";
    b["clock_advances_s"] = tier_ == "thorough" ? "1,2,3" : "1,3";
    b["search"] = "fixpoint per configuration";
    return b;
  }
  std::vector<std::string> assumptions() override {
    return {"ruleset-cgroup instances pausing independently are explored by C11's check (same model per instance)"};
  }
};
}  // namespace
int main(int argc, char** argv) {
  C06 d;
  return vr::main(argc, argv, d);
}
