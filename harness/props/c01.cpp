// C01 - Kill containment. Bounded-exhaustive exploration of (tree shape x population x plugin x
// cgroup patterns x flags x kill outcomes x multi-tick history) with the five real kill plugins,
// wet, through Oomd::run over the simulated cgroupfs.  Oracle: monitor over the effect log.
#include "common/killsim.h"
#include "common/runner.h"

namespace {
using ks::Cg;

// tree shapes with names that force glob ambiguity (s1 / s10 / s1x / .s1 / t1)
std::vector<std::vector<std::string>> kShapes = {
    /*0 flat*/ {"s1", "s10", "s1x", "t1", ".s1"},
    /*1 two-level*/ {"s1", "s1/a", "s1/b", "s10", "s10/a", "t1"},
    /*2 three-level*/ {"s1", "s1/a", "s1/a/x", "s1/a/y", "s1/b", "s10"},
    /*3 nested-only population*/ {"s1", "s1/a", "s1/a/x", "t1", "t1/a"},
    /*4 same-named children*/ {"s1", "s1/s1", "s1/s10", "s10", "s10/s1"},
    /*5 wide*/ {"s1", "s1/a", "s10", "s10/a", "s1x", "s1x/a", "t1", "t1/a"},
    /*6 a cgroup NAME that contains a glob metacharacter ('w*' is a literal directory name) next to a sibling its name would match as a pattern*/
    {"s1", "s1/w*", "s1/w*/k", "s1/w-x", "s1/w-x/k", "t1"},
};
const char* kPlugins[] = {"kill_by_memory_size_or_growth", "kill_by_pressure", "kill_by_swap_usage", "kill_by_io_cost",
                          "kill_by_pg_scan"};
const char* kPatterns[] = {"s1", "s*", "s?", "s1,t1", "*/a", "s1/*", "/", "s1/w?"};
// population patterns: how many processes each node of the shape gets
// 0: every leaf 1 proc; 1: first leaf 23 procs (> streaming size 20), others 1; 2: a "0" line in the first leaf;
// 3: internal nodes populated too; 4: only the deepest leaf populated
int popOf(int pop, const std::vector<std::string>& shape, size_t i, bool* zeroLine) {
  const std::string& rel = shape[i];
  bool leaf = true;
  for (auto& o : shape)
    if (o.size() > rel.size() && o.compare(0, rel.size() + 1, rel + "/") == 0) leaf = false;
  size_t firstLeaf = 0, deepest = 0;
  for (size_t k = 0; k < shape.size(); k++) {
    bool lf = true;
    for (auto& o : shape)
      if (o.size() > shape[k].size() && o.compare(0, shape[k].size() + 1, shape[k] + "/") == 0) lf = false;
    if (lf) {
      firstLeaf = k;
      break;
    }
  }
  for (size_t k = 0; k < shape.size(); k++)
    if (std::count(shape[k].begin(), shape[k].end(), '/') > std::count(shape[deepest].begin(), shape[deepest].end(), '/')) deepest = k;
  *zeroLine = false;
  switch (pop) {
    case 0: return leaf ? 1 : 0;
    case 1: return leaf ? (i == firstLeaf ? 23 : 1) : 0;
    case 2: *zeroLine = (i == firstLeaf); return leaf ? 2 : 0;
    case 3: return leaf ? 1 : 2;
    case 4: return i == deepest ? 3 : 0;
    case 5: return leaf ? 1 : 0;  // + pids.current reads 0 everywhere (set in build)
    case 6: return leaf ? 2 : 0;  // + no pids.current
  }
  return 0;
}

struct C01 : vr::Driver {
  vr::Mixed mx;
  std::vector<int> plugins, hists;
  std::vector<int> reapVals, acVals;
  std::string tier_;
  std::string id() override { return "C01"; }
  void configure(const std::string& tier, uint64_t) override {
    tier_ = tier;
    bool th = tier == "thorough";
    plugins = th ? std::vector<int>{0, 1, 2, 3, 4} : std::vector<int>{0, 1, 4};
    hists = th ? std::vector<int>{0, 1, 2, 3, 4} : std::vector<int>{0, 2, 4};
    reapVals = th ? std::vector<int>{1, 0} : std::vector<int>{1};
    acVals = th ? std::vector<int>{0, 1} : std::vector<int>{0};
    // dims: shape, pop, plugin, pattern, recursive, kernelkill, outcome, history, reap, always_continue,
    //       prekill hook (none / matches everything and stays pending for one tick, so the kill is deferred and resumed)
    mx.dims = {kShapes.size(), 7, plugins.size(), 8, 2, 2, 4, hists.size(), reapVals.size(), acVals.size(), 2};
  }
  size_t count() override { return mx.total(); }
  size_t chunk() override { return 16; }

  ks::Scenario build(size_t idx) {
    auto d = mx.decode(idx);
    const auto& shape = kShapes[d[0]];
    ks::Scenario s;
    for (size_t i = 0; i < shape.size(); i++) {
      Cg c;
      c.rel = shape[i];
      bool z = false;
      c.nprocs = popOf((int)d[1], shape, i, &z);
      c.zeroLine = z;
      c.pidsMode = d[1] == 5 ? 1 : d[1] == 6 ? 2 : 0;
      c.mem = (long long)(i + 1) * (100LL << 20);
      c.swap = (long long)(shape.size() - i) * (10LL << 20);
      c.p10 = 10 + 3 * (double)i;
      c.p60 = 5 + (double)i;
      c.pgscan = 100 * (long long)(i + 1);
      c.outcome = (int)d[6];
      s.cgs.push_back(c);
    }
    s.plugin = kPlugins[plugins[d[2]]];
    s.args["cgroup"] = kPatterns[d[3]];
    s.args["recursive"] = d[4] ? "true" : "false";
    if (d[5]) s.args["kernelkill"] = "true";
    if (!reapVals[d[8]]) s.args["reap_memory"] = "false";
    if (acVals[d[9]]) s.args["always_continue"] = "true";
    if (s.plugin == "kill_by_pressure") s.args["resource"] = "memory";
    int h = hists[d[7]];
    s.ticks = h == 0 ? 1 : 3;
    // history: 2 = a populated cgroup vanishes, 3 = a sibling appears, 4 = a cgroup is re-created under the same name
    std::string leaf = shape.back();
    if (h == 2) s.steps.push_back({2, 0, leaf});
    if (h == 3) s.steps.push_back({2, 1, shape[0] + "/zz"});
    if (h == 4) s.steps.push_back({2, 2, shape[0]});
    if (s.plugin == "kill_by_pg_scan" && s.ticks < 2) s.ticks = 2;  // first firing tick only samples
    if (d[10]) {
      s.hooksJson = "{\"name\":\"verif_hook\",\"args\":{\"id\":\"h\",\"cgroup\":\"/\"}}";
      s.hookTimeout = 30;
      s.hookDecide = [](const std::string&, long, int polls) { return polls >= 1; };
      s.ticks += 1;
    }
    return s;
  }
  std::string describe(size_t i) override { return build(i).describe(); }
  std::string klass(size_t i) override { return build(i).plugin; }
  void workerInit() override { sim::processInit(); }

  void run(size_t idx, vr::Result& r, bool verbose) override {
    ks::Scenario s = build(idx);
    ks::Outcome o = ks::run(s, verbose);
    std::string cls = "C01|" + s.plugin + "|";
    if (!o.rejected.empty()) {
      r.violate("C01|harness|config-rejected", o.rejected + " " + ks::configJson(s));
      return;
    }
    if (o.tick.escaped) {
      r.violate(cls + "uncaught:" + o.tick.excType, s.describe() + "\n" + o.tick.excWhat + "\n" + o.tick.excFrames);
      return;
    }
    bool recursive = s.args["recursive"] == "true";
    auto dump = [&]() {
      std::ostringstream l;
      for (size_t i = 0; i < o.effects.size(); i++)
        if (o.effects[i].kind != "open") l << "  [t" << o.tickOfEffect(i) << "] " << o.effects[i].str().substr(0, 200) << "\n";
      return l.str();
    };
    auto fail = [&](const std::string& rule, const std::string& text) {
      r.violate(cls + "monitor:" + rule, s.describe() + "\n" + text + "\neffects:\n" + dump());
    };
    // walk the effect log
    size_t ai = 0;
    const ks::Attempt* cur = nullptr;
    for (size_t i = 0; i < o.effects.size(); i++) {
      auto& e = o.effects[i];
      while (ai < o.attempts.size() && o.attempts[ai].effBegin <= i) cur = &o.attempts[ai++];
      if (cur && i >= cur->effEnd) cur = nullptr;
      if (e.kind == "kill") {
        if (e.a <= 0) return fail("signal-to-nonpositive-pid", "kill(" + std::to_string(e.a) + "," + std::to_string(e.b) + ")");
        if (e.b != 9) return fail("non-sigkill", "kill(" + std::to_string(e.a) + "," + std::to_string(e.b) + ")");
        if (!cur) return fail("kill-outside-attempt", "pid " + std::to_string(e.a) + " signalled without a selected victim");
        auto home = o.pidHome.find((int)e.a);
        if (home == o.pidHome.end()) return fail("unlisted-pid", "pid " + std::to_string(e.a) + " was never listed in any cgroup.procs");
        if (!ks::isUnderRel(home->second, cur->victim))
          return fail("foreign-pid", "pid " + std::to_string(e.a) + " of cgroup " + home->second + " signalled while victim is " + cur->victim);
      } else if (e.kind == "setxattr") {
        std::string rel = ks::relOfDir(e.path);
        if (!cur || rel != cur->victim) return fail("foreign-xattr", "xattr " + e.arg + " written on " + rel + " victim " + (cur ? cur->victim : "(none)"));
      } else if (e.kind == "ctlwrite") {
        std::string rel = ks::relOfDir(ks::dirPart(e.path));
        if (!cur || rel != cur->victim) return fail("foreign-control-write", ks::basePart(e.path) + " written in " + rel + " victim " + (cur ? cur->victim : "(none)"));
        std::string f = ks::basePart(e.path);
        if (f != "cgroup.kill" && f != "cgroup.freeze") return fail("unexpected-control-write", f);
      } else if (e.kind == "syscall") {
        // pidfd_open / process_mrelease only on the victim's processes
        if (e.arg == "pidfd_open") {
          auto home = o.pidHome.find((int)e.a);
          if (e.a > 0 && home != o.pidHome.end() && cur && !ks::isUnderRel(home->second, cur->victim))
            return fail("foreign-reap", "pidfd_open(" + std::to_string(e.a) + ") of cgroup " + home->second + " victim " + cur->victim);
        }
      }
    }
    // the victim announced to a prekill hook is the victim that is attacked once the hook is over
    for (auto& a : o.attempts) {
      const sim::HookEvent* lastFire = nullptr;
      for (auto& h : o.hooks)
        if (h.kind == "fire" && h.effectIndex <= a.effBegin) lastFire = &h;
      if (!lastFire) continue;
      bool otherBetween = false;
      for (auto& b : o.attempts)
        if (&b != &a && b.effBegin >= lastFire->effectIndex && b.effBegin < a.effBegin) otherBetween = true;
      if (!otherBetween && a.victim != lastFire->cgroup)
        return fail("victim-differs-from-hooked-cgroup", "the prekill hook was fired for " + lastFire->cgroup + " but the attack that followed hit " + a.victim);
    }
    for (auto& a : o.attempts)
      if (!ks::legalVictim(s.args["cgroup"], recursive, a.victim))
        return fail("illegal-victim", "victim " + a.victim + " is not matched by '" + s.args["cgroup"] + "' (recursive=" + (recursive ? "1" : "0") + ")");
    // one invocation stops at the first victim with a signalled process
    for (int t = 1; t <= s.ticks; t++) {
      std::vector<const ks::Attempt*> at;
      for (auto& a : o.attempts)
        if (a.tick == t) at.push_back(&a);
      for (size_t k = 0; k + 1 < at.size(); k++)
        if (at[k]->signalled() > 0 || at[k]->killFileWritten)
          return fail("continued-after-success", "tick " + std::to_string(t) + ": victim " + at[k]->victim + " had " +
                                                     std::to_string(at[k]->signalled()) + " signalled processes but " + at[k + 1]->victim + " was attacked too");
    }
    // observation for coverage accounting
    std::ostringstream ob;
    int kills = 0;
    for (auto& a : o.attempts) {
      ob << a.tick << ":" << a.victim << ":" << a.signalled() << ":" << a.failedPids.size() << ":" << a.killFileWritten << ";";
      kills += a.signalled() + a.killFileWritten;
    }
    r.counters["attempts"] += (long long)o.attempts.size();
    r.counters["scenarios_with_signal"] += kills > 0;
    r.counters["scenarios_with_fallback"] += o.attempts.size() > (size_t)s.ticks;
    if (!o.attempts.empty()) r.nontrivial(s.plugin + s.args["cgroup"] + ob.str());
  }
  std::string rule() override {
    return "full product of: 7 tree shapes with glob-ambiguous names (s1,s10,s1x,.s1,t1; a directory literally named 'w*'; up to 3 levels) x 7 population patterns "
           "(1 proc per leaf, 23 procs, a '0' line, populated internal nodes, nested-only, pids.current reading 0 while populated, no pids.current) x kill plugin x 8 cgroup arguments "
           "(literal, s*, s?, multi, */a, s1/*, root, s1/w?) x recursive x kernelkill x 4 kill-outcome policies (all die, all ESRCH, "
           "first EPERM, first lingers) x prekill hook {none, pending for one tick} x multi-tick history (none / vanish / sibling appears / re-created) [x reap_memory x "
           "always_continue in thorough]; each scenario runs the real plugin wet through Oomd::run; monitor: SIGKILL only, pid>0, "
           "pid listed in the selected victim's subtree, victim legal under an independent matcher, xattr/cgroup.kill/freeze "
           "writes only on the victim, victim == cgroup announced to the prekill hook, stop at first success; non-trivial = distinct attempt log with >=1 attempt";
  }
  Json::Value bounds() override {
    Json::Value b;
    b["shapes"] = (int)kShapes.size();
    b["plugins"] = (int)plugins.size();
    b["ticks"] = 3;
    b["max_depth"] = 3;
    b["max_nodes"] = 8;
    return b;
  }
  std::vector<std::string> assumptions() override {
    return {"kill(2), cgroup.kill, pidfd_open/process_mrelease and xattrs are served by the harness world (never forwarded)",
            "a victim's processes are those listed in cgroup.procs of its subtree when the tick's world was last materialised"};
  }
};
}  // namespace
int main(int argc, char** argv) {
  C01 d;
  return vr::main(argc, argv, d);
}
