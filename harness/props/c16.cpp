// C16 - Cgroup path algebra and wildcard / pattern matching.  Bounded-exhaustive, in-process:
// every string up to the enumerated length over {a b / * ? .}, every concatenation of <= 4
// components from a component alphabet with every slash placement, every (path, pattern) pair up
// to length 4, and every subset of an 8-entry directory/file universe on the real tmpfs x every
// pattern up to length 4.  Oracle: independent reference (common/refglob.h).
#include <set>
#include <unordered_set>

#include "common/boundary.h"
#include "common/refglob.h"
#include "common/runner.h"
#include "common/sim.h"
#include "common/world.h"
#include "oomd/include/CgroupPath.h"
#include "oomd/util/PluginArgParser.h"
#include "oomd/util/Util.h"

namespace {
using Oomd::CgroupPath;
const std::string kAlpha = "ab/*?.";

std::vector<std::string> allStrings(const std::string& alpha, int maxLen) {
  std::vector<std::string> r = {""};
  size_t b = 0;
  for (int l = 1; l <= maxLen; l++) {
    size_t e = r.size();
    for (size_t i = b; i < e; i++)
      for (char c : alpha) r.push_back(r[i] + c);
    b = e;
  }
  return r;
}

struct Part {
  char kind;   // A strings, B component concatenations, C hasDescendant pairs, D resolveWildcard, E comma lists
  size_t a, b; // sub-range
};

struct C16 : vr::Driver {
  std::vector<Part> parts;
  std::vector<std::string> strA, str4, compSeqs, strE;
  std::string tier_;
  int lenA = 5;
  std::string id() override { return "C16"; }
  void configure(const std::string& tier, uint64_t) override {
    tier_ = tier;
    bool th = tier == "thorough";
    lenA = th ? 7 : 6;
    strA = allStrings(kAlpha, lenA);
    str4 = allStrings(kAlpha, th ? 5 : 4);
    strE = allStrings("ab/*,.", th ? 6 : 5);
    // component concatenations with every slash placement
    const char* comps[] = {"", "a", "ab", "b", "*", "a*", "?", ".", "..", ".a"};
    const char* seps[] = {"/", "//"};
    for (int n = 0; n <= 4; n++) {
      size_t total = 1;
      for (int i = 0; i < n; i++) total *= 10;
      for (size_t code = 0; code < total; code++) {
        std::vector<std::string> cs;
        size_t c = code;
        for (int i = 0; i < n; i++) {
          cs.push_back(comps[c % 10]);
          c /= 10;
        }
        for (int lead = 0; lead < 3; lead++)
          for (int trail = 0; trail < 3; trail++)
            for (int sep = 0; sep < 2; sep++) {
              std::string s(lead, '/');
              for (int i = 0; i < n; i++) s += (i ? seps[sep] : "") + cs[i];
              s += std::string(trail, '/');
              compSeqs.push_back(s);
            }
      }
    }
    const size_t chunkA = 4000, chunkC = 40;
    for (size_t i = 0; i < strA.size(); i += chunkA) parts.push_back({'A', i, std::min(strA.size(), i + chunkA)});
    for (size_t i = 0; i < compSeqs.size(); i += chunkA) parts.push_back({'B', i, std::min(compSeqs.size(), i + chunkA)});
    for (size_t i = 0; i < str4.size(); i += chunkC) parts.push_back({'C', i, std::min(str4.size(), i + chunkC)});
    for (size_t s = 0; s < 256; s++) parts.push_back({'D', s, s + 1});
    for (size_t i = 0; i < strE.size(); i += chunkA) parts.push_back({'E', i, std::min(strE.size(), i + chunkA)});
  }
  size_t count() override { return parts.size(); }
  std::string describe(size_t i) override {
    auto& p = parts[i];
    switch (p.kind) {
      case 'A': return "constructor/child/parent/equality/hash laws on strings #" + std::to_string(p.a) + ".." + std::to_string(p.b) + " of all strings len<=" + std::to_string(lenA) + " over {a b / * ? .}, e.g. '" + strA[p.a] + "'";
      case 'B': return "same laws on component concatenations #" + std::to_string(p.a) + ".." + std::to_string(p.b) + ", e.g. '" + compSeqs[p.a] + "'";
      case 'C': return "hasDescendantWithPrefixMatching for paths #" + std::to_string(p.a) + ".." + std::to_string(p.b) + " x all patterns len<=4, e.g. path '" + str4[p.a] + "'";
      case 'D': return "resolveWildcard on directory-universe subset mask " + std::to_string(p.a) + " x all patterns len<=4";
      case 'E': return "comma-separated cgroup argument parsing on strings #" + std::to_string(p.a) + ".." + std::to_string(p.b) + ", e.g. '" + strE[p.a] + "'";
    }
    return "";
  }
  double scenarioTimeoutSec() override { return 900; }  // thorough parts enumerate tens of millions of strings
  std::string klass(size_t i) override { return std::string(1, parts[i].kind); }
  void workerInit() override { sim::processInit(); }

  // laws on one relative-path string
  bool laws(const std::string& fsIn, const std::string& s, vr::Result& r, std::unordered_set<uint64_t>& obs) {
    std::string fs = fsIn;
    if (fs.size() > 1 && fs.back() == '/') fs.pop_back();
    CgroupPath p(fsIn, s);
    auto want = rg::comps(s);
    std::string rel = rg::join(want);
    std::string abs = rel.empty() ? fs : fs + "/" + rel;
    auto bad = [&](const std::string& rule, const std::string& text) {
      r.violate("C16|laws|" + rule, "fs='" + fsIn + "' path='" + s + "': " + text);
      return false;
    };
    if (p.relativePath() != rel) return bad("canonical-relative", "relativePath()='" + p.relativePath() + "' expected '" + rel + "'");
    if (p.absolutePath() != abs) return bad("canonical-absolute", "absolutePath()='" + p.absolutePath() + "' expected '" + abs + "'");
    if (p.relativePathParts() != want) return bad("canonical-parts", "relativePathParts() differ");
    if (p.isRoot() != want.empty()) return bad("is-root", "isRoot() wrong");
    if (p.cgroupFs() != fs) return bad("cgroup-fs", "cgroupFs()='" + p.cgroupFs() + "'");
    // appending one component then taking the parent is the identity
    for (const char* c : {"a", "ab", "*", ".a", "a*"}) {
      CgroupPath ch = p.getChild(c);
      if (ch.relativePath() != (rel.empty() ? std::string(c) : rel + "/" + c)) return bad("child", std::string("getChild('") + c + "') -> '" + ch.relativePath() + "'");
      if (ch.absolutePath() != abs + "/" + c) return bad("child-absolute", ch.absolutePath());
      CgroupPath back = ch.getParent();
      if (!(back == p) || back.relativePath() != rel || back.absolutePath() != abs) return bad("child-parent-identity", std::string("getChild('") + c + "').getParent() = '" + back.relativePath() + "'");
      if (std::hash<CgroupPath>()(back) != std::hash<CgroupPath>()(p)) return bad("hash", "hash differs for equal paths");
    }
    // a child name without any component ("", "/", "//") appends nothing
    for (const char* c : {"", "/", "//"}) {
      CgroupPath ch = p.getChild(c);
      if (!(ch == p) || ch.relativePath() != rel || ch.absolutePath() != abs || ch.isRoot() != want.empty() || ch.relativePathParts() != want ||
          std::hash<CgroupPath>()(ch) != std::hash<CgroupPath>()(p))
        return bad("empty-child", std::string("getChild('") + c + "') -> relative '" + ch.relativePath() + "' absolute '" + ch.absolutePath() + "' (must be the path itself)");
      CgroupPath gc = ch.getChild("k");
      if (gc.relativePath() != (rel.empty() ? std::string("k") : rel + "/k")) return bad("empty-child", std::string("getChild('") + c + "').getChild('k') -> '" + gc.relativePath() + "'");
    }
    // multi-component child = concatenation of canonical components
    {
      CgroupPath ch = p.getChild("x//y/");
      std::string w = rel.empty() ? "x/y" : rel + "/x/y";
      if (ch.relativePath() != w) return bad("child-multi", "getChild('x//y/') -> '" + ch.relativePath() + "'");
    }
    if (!want.empty()) {
      CgroupPath par = p.getParent();
      auto pc = want;
      pc.pop_back();
      if (par.relativePath() != rg::join(pc)) return bad("parent", "getParent() -> '" + par.relativePath() + "'");
    } else {
      bool threw = false;
      try {
        p.getParent();
      } catch (const std::invalid_argument&) {
        threw = true;
      }
      if (!threw) return bad("parent-of-root", "getParent() of the root did not report an error");
    }
    // derived objects are indistinguishable from freshly constructed ones, whatever was done to their source before
    // (observers such as hashing, comparing and reading the cached strings must not leave state that a derivation copies)
    {
      auto H = [](const CgroupPath& x) { return std::hash<CgroupPath>()(x); };
      auto sameAsFresh = [&](const CgroupPath& x, const char* how) {
        CgroupPath fresh(x.cgroupFs(), x.relativePath());
        if (!(x == fresh) || x != fresh || H(x) != H(fresh) || x.absolutePath() != fresh.absolutePath() || x.relativePathParts() != fresh.relativePathParts()) {
          bad("derived-differs-from-fresh", std::string(how) + " yields an object that differs from a freshly constructed '" + x.relativePath() + "' (hash " +
                                                std::to_string(H(x)) + " vs " + std::to_string(H(fresh)) + ")");
          return false;
        }
        std::unordered_set<CgroupPath> set;
        set.insert(fresh);
        if (!set.count(x)) {
          bad("derived-differs-from-fresh", std::string(how) + ": not found in an unordered_set holding an equal path");
          return false;
        }
        return true;
      };
      for (int observed = 0; observed < 2; observed++) {
        CgroupPath src(fsIn, s);
        if (observed) {
          (void)H(src);
          (void)(src == p);
          (void)src.absolutePath();
        }
        CgroupPath cp = src;
        if (!sameAsFresh(cp, observed ? "copy of an observed path" : "copy")) return false;
        CgroupPath ch = src.getChild("k");
        if (!sameAsFresh(ch, observed ? "getChild on an observed path" : "getChild")) return false;
        if (observed) (void)H(ch);
        CgroupPath back = ch.getParent();
        if (!sameAsFresh(back, observed ? "getParent on an observed path" : "getParent")) return false;
        if (!want.empty()) {
          CgroupPath par = src.getParent();
          if (!sameAsFresh(par, observed ? "getParent on an observed path" : "getParent")) return false;
          if (observed) (void)H(par);
          CgroupPath sib = par.getChild("z");
          if (!sameAsFresh(sib, "getParent().getChild()")) return false;
        }
        CgroupPath asg(fsIn, "q/r");
        if (observed) (void)H(asg);
        asg = src;
        if (!sameAsFresh(asg, observed ? "assignment over an observed path" : "assignment")) return false;
      }
    }
    if (want.size() >= 2 || s != rel) obs.insert(vr::fnv(rel + "|" + std::to_string(want.size())));
    return true;
  }

  void run(size_t pi, vr::Result& r, bool) override {
    const Part& pt = parts[pi];
    std::unordered_set<uint64_t> obs;
    size_t evals = 0;
    const std::string fs = world::cgfs();
    if (pt.kind == 'A' || pt.kind == 'B') {
      const auto& src = pt.kind == 'A' ? strA : compSeqs;
      for (size_t i = pt.a; i < pt.b; i++) {
        evals++;
        if (!laws(fs, src[i], r, obs)) break;
        if (i % 7 == 0 && !laws(fs + "/", src[i], r, obs)) break;  // trailing slash on the fs root is ignored
        if (i % 97 == 0 && !laws("/", src[i], r, obs)) break;
      }
      // equality/hash agree with absolute-path equality: all pairs inside this chunk with short strings
      if (pt.kind == 'A') {
        size_t hi = std::min(pt.b, str4.size());
        for (size_t i = pt.a; i < hi && r.violations.empty(); i++) {
          CgroupPath a(fs, strA[i]);
          for (size_t j = 0; j < str4.size(); j++) {
            CgroupPath b(fs, str4[j]);
            evals++;
            bool eq = a == b, absEq = a.absolutePath() == b.absolutePath(), refEq = rg::comps(strA[i]) == rg::comps(str4[j]);
            if (eq != absEq || eq != refEq || (a != b) == eq) {
              r.violate("C16|laws|equality", "'" + strA[i] + "' vs '" + str4[j] + "': operator== " + std::to_string(eq) + ", absolute paths equal " + std::to_string(absEq) + ", canonical components equal " + std::to_string(refEq));
              break;
            }
            if (eq && std::hash<CgroupPath>()(a) != std::hash<CgroupPath>()(b)) {
              r.violate("C16|laws|hash", "'" + strA[i] + "' == '" + str4[j] + "' but hashes differ");
              break;
            }
            if (eq && strA[i] != str4[j]) obs.insert(vr::fnv("eq" + a.relativePath()));
          }
        }
        // different fs roots never compare equal unless the absolute paths coincide
        CgroupPath x(fs, "a"), y(fs + "x", "a");
        if (x == y) r.violate("C16|laws|equality", "paths under different cgroup-fs roots compare equal");
      }
    } else if (pt.kind == 'C') {
      for (size_t i = pt.a; i < pt.b && r.violations.empty(); i++) {
        CgroupPath path(fs, str4[i]);
        auto pc = rg::comps(str4[i]);
        for (size_t j = 0; j < str4.size(); j++) {
          CgroupPath pat(fs, str4[j]);
          auto qc = rg::comps(str4[j]);
          evals++;
          // reference (docs/prekill_hooks.md): compare the common prefix; '*' stands for exactly one whole component
          bool want = true;
          for (size_t k = 0; k < std::min(pc.size(), qc.size()); k++)
            if (!(qc[k] == "*" || qc[k] == pc[k])) want = false;
          bool got = path.hasDescendantWithPrefixMatching(pat);
          if (got != want) {
            r.violate("C16|pattern|prefix-match", "path '" + str4[i] + "' pattern '" + str4[j] + "': got " + std::to_string(got) + " expected " + std::to_string(want));
            break;
          }
          if (!pc.empty() && !qc.empty()) obs.insert(vr::fnv(rg::join(pc) + "~" + rg::join(qc)));
        }
      }
    } else if (pt.kind == 'D') {
      // universe: directories and files; children need their parent
      struct Ent {
        const char* path;
        bool dir;
      };
      const Ent uni[8] = {{"a", true}, {"b", true}, {"ab", true}, {".a", true}, {"a/b", true}, {"a/a", true}, {"ba", false}, {"a/ab", false}};
      world::reset();
      // names that share a prefix with the fs root's own name, next to it
      vb::rawMkdirs(fs + "x");
      vb::rawMkdirs(fs + "x/a");
      vb::rawWrite(fs + ".file", "");
      std::set<std::string> dirs = {""};
      for (int k = 0; k < 8; k++) {
        if (!(pt.a >> k & 1)) continue;
        std::string p = uni[k].path;
        auto slash = p.rfind('/');
        if (slash != std::string::npos && !dirs.count(p.substr(0, slash))) continue;
        if (uni[k].dir) {
          vb::rawMkdirs(fs + "/" + p);
          dirs.insert(p);
        } else {
          vb::rawWrite(fs + "/" + p, "x");
        }
      }
      for (size_t j = 0; j < str4.size() && r.violations.empty(); j++) {
        auto qc = rg::comps(str4[j]);
        bool open = false;
        for (auto& c : qc) open |= (c == "." || c == "..");
        if (open) continue;  // "." / ".." components: left open (not cgroup names)
        evals++;
        CgroupPath pat(fs, str4[j]);
        std::set<std::string> got, want;
        for (auto& g : pat.resolveWildcard()) {
          if (g.cgroupFs() != fs) {
            r.violate("C16|resolve|foreign-root", "pattern '" + str4[j] + "' resolved to fs " + g.cgroupFs());
            break;
          }
          // POSIX glob lets a wildcard component that starts with '.' (".*", ".?") match the "." and ".." entries; the
          // statement does not say whether those count as directories under the root, and the repository's own tests
          // rely on them, so results containing a "." / ".." component are left open (neither demanded nor forbidden).
          bool dotEntry = false;
          for (auto& c : g.relativePathParts()) dotEntry |= (c == "." || c == "..");
          if (dotEntry) continue;
          got.insert(g.relativePath());
        }
        for (auto& d : dirs)
          if (rg::pathMatch(str4[j], d)) want.insert(d);
        if (got != want) {
          std::string a, b, u;
          for (auto& x : got) a += "'" + x + "' ";
          for (auto& x : want) b += "'" + x + "' ";
          for (auto& x : dirs) u += "'" + x + "' ";
          r.violate("C16|resolve|wildcard-set", "pattern '" + str4[j] + "' over directories {" + u + "} (mask " + std::to_string(pt.a) + ") resolved to {" + a + "} expected {" + b + "}");
          break;
        }
        if (!want.empty()) obs.insert(vr::fnv(std::to_string(pt.a) + rg::join(qc)));
      }
      vb::rawRmrf(fs + "x");
      vb::rawRmrf(fs + ".file");
    } else if (pt.kind == 'E') {
      Oomd::PluginConstructionContext ctx(fs);
      for (size_t i = pt.a; i < pt.b; i++) {
        evals++;
        std::set<std::string> got, want;
        for (auto& p : Oomd::PluginArgParser::parseCgroup(ctx, strE[i])) got.insert(p.relativePath());
        for (auto& piece : rg::splitComma(strE[i])) want.insert(rg::join(rg::comps(piece)));
        if (got != want) {
          r.violate("C16|laws|comma-list", "argument '" + strE[i] + "' parsed into " + std::to_string(got.size()) + " paths, expected " + std::to_string(want.size()));
          break;
        }
        auto sp = Oomd::Util::split(strE[i], ',');
        if (sp != rg::splitComma(strE[i])) {
          r.violate("C16|laws|split", "Util::split('" + strE[i] + "', ',') disagrees with the reference");
          break;
        }
        if (want.size() > 1) obs.insert(vr::fnv(strE[i]));
      }
    }
    r.evals = evals;
    for (auto h : obs) r.obs.push_back(h);
  }
  std::string rule() override {
    return "exhaustive: all strings len<=L over {a b / * ? .} and all concatenations of <=4 components from {'',a,ab,b,*,a*,?,.,..,.a} "
           "with every leading/trailing/double slash placement -> constructor canonical form, absolute path, getChild/getParent "
           "identity, derived objects (copy, assignment, child, parent - from sources that were or were not hashed/compared before) equal to freshly constructed ones incl. hash and unordered_set lookup, multi-component child, parent-of-root error; all pairs (len<=L string, len<=4 string) -> operator==/!=/hash vs "
           "absolute-path and canonical-component equality; all (path,pattern) pairs len<=4 -> prekill-hook prefix match vs the "
           "three-case rule; all 256 subsets of an 8-entry universe of directories and files (incl. a dot-directory, files matching "
           "the pattern, entries next to the root sharing its name prefix) x all patterns len<=4 -> resolveWildcard set vs component-wise "
           "reference glob; all strings len<=5 over {a b / * , .} -> comma list parsing; non-trivial = distinct non-identity canonicalisation "
           "/ non-empty match";
  }
  Json::Value bounds() override {
    Json::Value b;
    b["string_length"] = lenA;
    b["pair_length"] = tier_ == "thorough" ? 5 : 4;
    b["components"] = 4;
    b["universe_entries"] = 8;
    b["left_open"] = "patterns or results with '.' or '..' components in resolveWildcard; bracket/brace/backslash glob syntax (outside the alphabet)";
    return b;
  }
  std::vector<std::string> assumptions() override { return {"the random-longer-strings clause of the quantifier is not used: enumeration only"}; }
};
}  // namespace
int main(int argc, char** argv) {
  C16 d;
  return vr::main(argc, argv, d);
}
