// C13 - Drop-in override semantics. Explicit-state BFS over operation histories
// (add / re-add / remove / refused add) applied through the real DropInServiceAdaptor seam
// inside the real Oomd::run loop; after every operation one scripted tick, the
// oomd.dropin.added statistic, the engine's private drop-in bookkeeping and the prekill-hook
// priority are compared with a reference model, plus a differential reversibility check.
#include <deque>
#include <map>
#include <set>
#include <sstream>

#include "common/boundary.h"
#include "common/runner.h"
#include "common/sim.h"
#include "common/world.h"
#include "oomd/config/JsonConfigParser.h"
#include "oomd/dropin/DropInServiceAdaptor.h"
#include "oomd/engine/Engine.h"
#include "oomd/include/CoreStats.h"

namespace {

struct Perm {
  bool det, act, disable;
};

// content alphabet
enum Content { C_DET, C_ACT, C_BOTH, C_R2ACT, C_MULTI, C_UNKNOWN, C_HOOK, C_HOOKONLY, C_EMPTY, C_SAME2, C_SAME2ACT, C_VALID_UNKNOWN, C_NCONTENT };
const char* kContentName[] = {"R1-detectors", "R1-actions", "R1-both", "R2-actions", "[R1-det,R2-act]",
                              "unknown-ruleset", "R1-actions+hook", "hook-only", "R1-empty", "[R1-det,R1-act]",
                              "[R1-act,R1-act]", "[R1-act,unknown-ruleset]"};

struct RsPart {
  int base;   // 0 = R1, 1 = R2, -1 unknown
  bool det, act;
};
std::vector<RsPart> partsOf(int c) {
  switch (c) {
    case C_DET: return {{0, true, false}};
    case C_ACT: return {{0, false, true}};
    case C_BOTH: return {{0, true, true}};
    case C_R2ACT: return {{1, false, true}};
    case C_MULTI: return {{0, true, false}, {1, false, true}};
    case C_UNKNOWN: return {{-1, false, true}};
    case C_HOOK: return {{0, false, true}};
    case C_HOOKONLY: return {};
    case C_EMPTY: return {{0, false, false}};
    case C_SAME2: return {{0, true, false}, {0, false, true}};   // one tag, two drop-in rulesets on the SAME base
    case C_SAME2ACT: return {{0, false, true}, {0, false, true}};
    case C_VALID_UNKNOWN: return {{0, false, true}, {-1, false, true}};  // a valid target listed BEFORE an unknown one: still refused as a whole
  }
  return {};
}
int hooksOf(int c) { return c == C_HOOK ? 1 : c == C_HOOKONLY ? 2 : 0; }

std::string scripted(const std::string& id) { return "{\"name\":\"verif_scripted\",\"args\":{\"id\":\"" + id + "\"}}"; }
std::string hookJ(const std::string& id) {
  return "{\"name\":\"verif_hook\",\"args\":{\"id\":\"" + id + "\",\"cgroup\":\"*\"}}";
}

std::string contentJson(const std::string& tag, int c) {
  std::ostringstream o;
  o << "{\"rulesets\":[";
  auto ps = partsOf(c);
  for (size_t i = 0; i < ps.size(); i++) {
    std::string bn = ps[i].base == 0 ? "R1" : ps[i].base == 1 ? "R2" : "R9";
    std::string pre = tag + "." + std::to_string(i);
    o << (i ? "," : "") << "{\"name\":\"" << bn << "\"";
    if (ps[i].det) o << ",\"detectors\":[[\"" << pre << "g\"," << scripted(pre + "d") << "]]";
    if (ps[i].act) o << ",\"actions\":[" << scripted(pre + "a") << "]";
    o << "}";
  }
  o << "]";
  if (int h = hooksOf(c)) {
    o << ",\"prekill_hooks\":[";
    for (int i = 0; i < h; i++) o << (i ? "," : "") << hookJ(tag + ".h" + std::to_string(i));
    o << "]";
  }
  o << "}";
  return o.str();
}

std::string baseJson(Perm p1, Perm p2) {
  auto rs = [](const std::string& n, Perm p) {
    std::ostringstream o;
    o << "{\"name\":\"" << n << "\",\"post_action_delay\":\"0\",\"drop-in\":{\"detectors\":" << (p.det ? "true" : "false")
      << ",\"actions\":" << (p.act ? "true" : "false") << ",\"disable-on-drop-in\":" << (p.disable ? "true" : "false")
      << "},\"detectors\":[[\"" << n << "g\"," << scripted(n + "d") << "]],\"actions\":[" << scripted(n + "a") << "]}";
    return o.str();
  };
  return "{\"rulesets\":[" + rs("R1", p1) + "," + rs("R2", p2) + "],\"prekill_hooks\":[" + hookJ("base.h0") + "," +
         hookJ("base.h1") + "]}";
}

struct Op {
  int kind;  // 0 add, 1 remove
  int tag;
  int content;
  std::string str() const {
    std::string t(1, (char)('A' + tag));
    return kind == 0 ? "add(" + t + "," + kContentName[content] + ")" : "remove(" + t + ")";
  }
};
using Hist = std::vector<Op>;
std::string histStr(const Hist& h) {
  std::string s;
  for (auto& o : h) s += o.str() + " ";
  return s;
}

// ---- reference model -------------------------------------------------------------------
struct Copy {
  std::string tag;
  std::vector<std::string> dets, acts;  // plugin ids in this copy
};
struct Model {
  Perm perm[2];
  std::deque<Copy> dropins[2];           // newest first
  std::vector<std::pair<std::string, std::string>> hooks;  // (tag, id) in PRIORITY order, base last
  int added = 0;
  Model(Perm a, Perm b) {
    perm[0] = a;
    perm[1] = b;
    hooks = {{"", "base.h0"}, {"", "base.h1"}};
  }
  void removeTag(const std::string& t) {
    for (int b = 0; b < 2; b++)
      for (auto it = dropins[b].begin(); it != dropins[b].end();) {
        if (it->tag == t) {
          it = dropins[b].erase(it);
          added--;
        } else {
          ++it;
        }
      }
    for (auto it = hooks.begin(); it != hooks.end();) it = (it->first == t) ? hooks.erase(it) : std::next(it);
  }
  bool accepts(int c) const {
    for (auto& p : partsOf(c)) {
      if (p.base < 0) return false;
      if (p.det && !perm[p.base].det) return false;
      if (p.act && !perm[p.base].act) return false;
    }
    return true;
  }
  void apply(const Op& op) {
    std::string t(1, (char)('A' + op.tag));
    if (op.kind == 1) {
      removeTag(t);
      return;
    }
    if (!accepts(op.content)) return;  // refused as a whole: nothing changes
    removeTag(t);
    auto ps = partsOf(op.content);
    for (size_t i = 0; i < ps.size(); i++) {
      std::string bn = ps[i].base == 0 ? "R1" : "R2";
      std::string pre = t + "." + std::to_string(i);
      Copy c;
      c.tag = t;
      c.dets = {ps[i].det ? pre + "d" : bn + "d"};
      c.acts = {ps[i].act ? pre + "a" : bn + "a"};
      dropins[ps[i].base].push_front(c);
      added++;
    }
    int h = hooksOf(op.content);
    std::vector<std::pair<std::string, std::string>> mine;
    for (int i = 0; i < h; i++) mine.push_back({t, t + ".h" + std::to_string(i)});
    hooks.insert(hooks.begin(), mine.begin(), mine.end());
  }
  bool enabled(int b) const { return !(perm[b].disable && !dropins[b].empty()); }
  // expected (id, method, slot) sequence of one tick with every plugin answering CONTINUE
  std::vector<std::tuple<std::string, std::string, std::string>> expectTick() const {
    std::vector<std::tuple<std::string, std::string, std::string>> e;
    for (int phase = 0; phase < 2; phase++) {
      const char* m = phase == 0 ? "prerun" : "run";
      for (int b = 0; b < 2; b++) {
        int k = 0;
        for (auto& c : dropins[b]) {
          std::string slot = "b" + std::to_string(b) + ".drop" + std::to_string(k++) + "." + c.tag;
          for (auto& d : c.dets) e.push_back({d, m, slot});
          for (auto& a : c.acts) e.push_back({a, m, slot});
        }
        if (enabled(b)) {
          std::string bn = b == 0 ? "R1" : "R2";
          e.push_back({bn + "d", m, "b" + std::to_string(b) + ".base"});
          e.push_back({bn + "a", m, "b" + std::to_string(b) + ".base"});
        }
      }
    }
    return e;
  }
  std::string key() const {
    std::ostringstream o;
    for (int b = 0; b < 2; b++) {
      o << "[";
      for (auto& c : dropins[b]) o << c.tag << ":" << c.dets[0] << "/" << c.acts[0] << ",";
      o << (enabled(b) ? "E" : "D") << "]";
    }
    o << "hooks:";
    for (auto& h : hooks) o << h.second << ",";
    o << "added=" << added;
    return o.str();
  }
};

struct Adaptor : Oomd::DropInServiceAdaptor {
  using Oomd::DropInServiceAdaptor::DropInServiceAdaptor;
  std::vector<std::string> results;
  void tick() override {}
  void handleDropInAddResult(const std::string& tag, bool ok) override { results.push_back("add " + tag + (ok ? " ok" : " FAILED")); }
  void handleDropInRemoveResult(const std::string& tag, bool ok) override { results.push_back("rm " + tag + (ok ? " ok" : " FAILED")); }
  bool add(const std::string& tag, const std::string& json) {
    Oomd::Config2::JsonConfigParser p;
    auto root = p.parse(json);
    if (!root) return false;
    return scheduleDropInAdd(tag, *root);
  }
  void remove(const std::string& tag) { scheduleDropInRemove(tag); }
};

struct Observation {
  std::string text;      // canonical observation of the final state (for the differential check)
  std::string verdict;   // "" or rule: explanation
  std::string modelKey;
};

struct C13 : vr::Driver {
  std::vector<std::pair<Perm, Perm>> bases;
  std::string tier_;
  int nTags = 2;
  int maxDepth = 4;
  size_t nBases = 0;  // thorough: items [0, nBases) = 2 tags to fixpoint (depth <= 5), [nBases, 2 nBases) = 3 tags, every history of <= 3 operations
  std::string id() override { return "C13"; }
  void configure(const std::string& tier, uint64_t) override {
    tier_ = tier;
    bool th = tier == "thorough";
    nTags = 2;
    maxDepth = th ? 5 : 4;
    for (int a = 0; a < 8; a++)
      for (int b = 0; b < 8; b++) {
        Perm p1{(a & 1) != 0, (a & 2) != 0, (a & 4) != 0}, p2{(b & 1) != 0, (b & 2) != 0, (b & 4) != 0};
        // quick: all 8 permission combinations of R1 x {closed, actions-open, actions-open+disable} of R2
        if (!th && !(b == 0 || b == 2 || b == 6)) continue;
        bases.push_back({p1, p2});
      }
    nBases = bases.size();
    if (th) {
      auto copy = bases;
      for (auto& b : copy) bases.push_back(b);
    }
  }
  int tagsOf(size_t i) const { return i >= nBases ? 3 : 2; }
  int depthOf(size_t i) const { return i >= nBases ? 3 : maxDepth; }
  size_t count() override { return bases.size(); }
  std::string describe(size_t i) override {
    auto pr = [](Perm p) { return std::string(p.det ? "d" : "-") + (p.act ? "a" : "-") + (p.disable ? "x" : "-"); };
    return "base perms R1=" + pr(bases[i].first) + " R2=" + pr(bases[i].second) + " tags=" + std::to_string(tagsOf(i)) + " histories<=" + std::to_string(depthOf(i));
  }
  std::string klass(size_t) override { return "dropin"; }
  void workerInit() override { sim::processInit(); }

  // batched = every operation of H is scheduled within ONE interval (before the first tick): the adaptor's queue is applied in
  // order, so the outcome must be the one of the sequential history
  Observation execute(size_t bi, const Hist& H, bool batched = false) {
    Observation ob;
    sim::resetScript();
    vb::resetLog();
    vb::clockNs = vb::kEpochNs;
    sim::resetStats();
    std::string err;
    auto o = sim::make(baseJson(bases[bi].first, bases[bi].second), &err, 5);
    if (!o) {
      ob.verdict = "harness: base config rejected: " + err;
      return ob;
    }
    // the synchronous adaptor is owned by the harness and driven at the start of every tick, where Oomd::run would drive its own
    // drop-in service (no private member of the daemon is touched)
    auto adOwner = std::make_unique<Adaptor>(world::cgfs(), *sim::lastIr, *sim::lastEngine);
    Adaptor* ad = adOwner.get();
    sim::decide = [](const std::string&, const std::string&) { return 0; };
    std::vector<bool> accepted;
    const int nTicks = batched ? 2 : (int)H.size() + 1;
    auto opsAt = [&](int k) -> std::pair<size_t, size_t> {  // [first, last) operations scheduled right before tick k
      if (batched) return k == 1 ? std::make_pair((size_t)0, H.size()) : std::make_pair(H.size(), H.size());
      return (size_t)k <= H.size() ? std::make_pair((size_t)k - 1, (size_t)k) : std::make_pair(H.size(), H.size());
    };
    auto out = sim::runTicks(*o, nTicks, [&](int k) {
      auto range = opsAt(k);
      for (size_t i = range.first; i < range.second; i++) {
        const Op& op = H[i];
        std::string t(1, (char)('A' + op.tag));
        if (op.kind == 0)
          accepted.push_back(ad->add(t, contentJson(t, op.content)));
        else {
          ad->remove(t);
          accepted.push_back(true);
        }
      }
      ad->updateDropIns();
    });
    if (out.escaped) {
      ob.verdict = "uncaught: " + out.excType + " " + out.excWhat;
      return ob;
    }
    Model m(bases[bi].first, bases[bi].second);
    for (int t = 1; t <= nTicks && ob.verdict.empty(); t++) {
      auto range = opsAt(t);
      for (size_t i = range.first; i < range.second && ob.verdict.empty(); i++) {
        const Op& op = H[i];
        bool want = op.kind == 1 || m.accepts(op.content);
        if (accepted[i] != want)
          ob.verdict = std::string("acceptance: ") + op.str() + (want ? " must be accepted" : " must be refused") + " but was " +
                       (accepted[i] ? "accepted" : "refused");
        m.apply(op);
      }
      if (!ob.verdict.empty()) break;
      std::vector<sim::Call> tc;
      for (auto& c : sim::calls)
        if (c.tick == t && c.method != "init") tc.push_back(c);
      auto exp = m.expectTick();
      std::map<std::string, std::string> slotOfInst;
      for (size_t k = 0; k < std::max(exp.size(), tc.size()) && ob.verdict.empty(); k++) {
        if (k >= exp.size())
          ob.verdict = "order: unexpected call " + tc[k].id + "." + tc[k].method;
        else if (k >= tc.size())
          ob.verdict = "order: missing call " + std::get<0>(exp[k]) + "." + std::get<1>(exp[k]);
        else if (tc[k].id != std::get<0>(exp[k]) || tc[k].method != std::get<1>(exp[k]))
          ob.verdict = "order: tick " + std::to_string(t) + " call " + std::to_string(k) + " expected " + std::get<0>(exp[k]) +
                       "." + std::get<1>(exp[k]) + " got " + tc[k].id + "." + tc[k].method;
        else {
          // fresh copy: one plugin instance never serves two ruleset slots
          auto ins = slotOfInst.emplace(tc[k].instance, std::get<2>(exp[k]));
          if (!ins.second && ins.first->second != std::get<2>(exp[k]))
            ob.verdict = "fresh-copy: plugin instance " + tc[k].instance + " (" + tc[k].id + ") used by " + ins.first->second +
                         " and " + std::get<2>(exp[k]);
        }
      }
      if (!ob.verdict.empty()) ob.verdict += " [after " + std::to_string(std::min<size_t>(t, H.size())) + " ops]";
    }
    if (!ob.verdict.empty()) return ob;
    // statistic
    int added = sim::statValue(Oomd::CoreStats::kNumDropInAdds);
    if (added != m.added) {
      ob.verdict = "stat: oomd.dropin.added=" + std::to_string(added) + " expected " + std::to_string(m.added);
      return ob;
    }
    // private bookkeeping (read through a `requires` guard: a refactoring of these members skips this conformance check, the
    // behavioural comparison above does not depend on it)
    std::ostringstream ik;
    bool privReadable = [&](auto& oo) -> bool {
      if constexpr (requires { oo.engine_->rulesets_[0].dropins.begin()->tag; oo.engine_->rulesets_[0].ruleset->enabled_; oo.engine_->rulesets_[0].ruleset->numTargeted_; }) {
        auto& eng = *oo.engine_;
        for (size_t b = 0; b < eng.rulesets_.size(); b++) {
          ik << "[";
          for (auto& d : eng.rulesets_[b].dropins) ik << d.tag << ",";
          ik << (eng.rulesets_[b].ruleset->enabled_ ? "E" : "D") << eng.rulesets_[b].ruleset->numTargeted_ << "]";
        }
        return true;
      } else {
        return false;
      }
    }(*o);
    std::ostringstream mk;
    for (int b = 0; b < 2; b++) {
      mk << "[";
      for (auto& c : m.dropins[b]) mk << c.tag << ",";
      mk << (m.enabled(b) ? "E" : "D") << m.dropins[b].size() << "]";
    }
    if (privReadable && ik.str() != mk.str()) {
      ob.verdict = "state-conformance: engine " + ik.str() + " model " + mk.str();
      return ob;
    }
    // hook priority: behavioural probe (first hook that fires on a victim every hook matches) + full private order if readable
    std::string order;
    {
      bool readable = [&](auto& oo) -> bool {
        if constexpr (requires { oo.engine_->prekill_hooks_in_reverse_order_.rbegin()->dropin_tag; }) {
          auto& hs = oo.engine_->prekill_hooks_in_reverse_order_;
          for (auto it = hs.rbegin(); it != hs.rend(); ++it) order += (it->dropin_tag ? *it->dropin_tag : std::string("")) + ";";
          return true;
        } else {
          return false;
        }
      }(*o);
      std::string morder;
      for (auto& h : m.hooks) morder += h.first + ";";
      if (readable && order != morder) {
        ob.verdict = "hook-priority: engine tag order " + order + " model " + morder;
        return ob;
      }
    }
    sim::hookEvents.clear();
    Oomd::OomdContext* dctx = sim::curCtx;  // the daemon's context, as handed to the scripted plugins during the ticks above
    if (!dctx) {
      ob.verdict = "harness: no tick has run, the daemon's context is unknown";
      return ob;
    }
    if (auto cg = dctx->addToCacheAndGet(Oomd::CgroupPath(world::cgfs(), "victim"))) {
      auto inv = dctx->firePrekillHook(cg->get());
      std::string fired = sim::hookEvents.empty() ? "(none)" : sim::hookEvents[0].hook;
      std::string want = m.hooks.empty() ? "(none)" : m.hooks[0].second;
      if (fired != want) {
        ob.verdict = "hook-priority: hook fired for victim = " + fired + " expected " + want;
        return ob;
      }
    } else {
      ob.verdict = "harness: victim cgroup missing";
      return ob;
    }
    ob.modelKey = m.key();
    // canonical observation of the final state: last tick's call ids + stat + hook order
    std::ostringstream obs;
    for (auto& c : sim::calls)
      if (c.tick == nTicks && c.method != "init") obs << c.id << "." << c.method << ";";
    obs << "|added=" << added << "|hooks=" << order << "|" << ik.str();
    ob.text = obs.str();
    return ob;
  }

  void run(size_t bi, vr::Result& r, bool verbose) override {
    world::reset();
    world::mkcg("victim");
    std::map<std::string, Hist> seen;
    std::deque<std::string> frontier;
    {
      Model m(bases[bi].first, bases[bi].second);
      seen[m.key()] = {};
      frontier.push_back(m.key());
    }
    size_t transitions = 0, diffChecks = 0;
    int depthMax = 0;
    bool capped = false;
    std::vector<Op> alphabet;
    const int nTags = tagsOf(bi), maxDepth = depthOf(bi);
    for (int t = 0; t < nTags; t++) {
      for (int c = 0; c < C_NCONTENT; c++) alphabet.push_back({0, t, c});
      alphabet.push_back({1, t, 0});
    }
    std::set<std::string> outcomes;
    auto fail = [&](const Hist& h, const std::string& verdict) {
      std::string rule = verdict.substr(0, verdict.find(':'));
      r.violate("C13|dropin|" + rule, describe(bi) + "\nhistory: " + histStr(h) + "\n" + verdict);
    };
    while (!frontier.empty()) {
      Hist H = seen[frontier.front()];
      frontier.pop_front();
      if ((int)H.size() >= maxDepth) {
        capped = true;
        continue;
      }
      for (auto& op : alphabet) {
        Hist H2 = H;
        H2.push_back(op);
        transitions++;
        vr::progress();
        Observation ob = execute(bi, H2);
        if (!ob.verdict.empty()) {
          fail(H2, ob.verdict);
          continue;
        }
        outcomes.insert(ob.text);
        if (verbose) printf("  %s => %s\n", histStr(H2).c_str(), ob.modelKey.c_str());
        // the same operations scheduled within one interval give the same result (the queue is applied in order)
        if (H2.size() >= 2) {
          Observation bt = execute(bi, H2, true);
          transitions++;
          if (!bt.verdict.empty())
            fail(H2, "batched-" + bt.verdict + "  [all operations scheduled within one interval]");
          else if (bt.text != ob.text)
            fail(H2, "batched-differs: with all operations scheduled within one interval the final observation is\n  " + bt.text + "\nbut one operation per interval gives\n  " + ob.text);
        }
        // differential reversibility on the real code: H2 + remove(t)  ==  H2 without any operation on t
        if (op.kind == 0) {
          Hist Hr = H2;
          Hr.push_back({1, op.tag, 0});
          Hist Hw;
          for (auto& o : H2)
            if (o.tag != op.tag) Hw.push_back(o);
          Observation a = execute(bi, Hr), b = execute(bi, Hw);
          diffChecks++;
          transitions += 2;
          if (!a.verdict.empty())
            fail(Hr, a.verdict);
          else if (!b.verdict.empty())
            fail(Hw, b.verdict);
          else if (a.text != b.text)
            fail(Hr, "reversibility: after removing tag " + std::string(1, (char)('A' + op.tag)) + " observed\n  " + a.text +
                         "\nbut the same history without that tag gives\n  " + b.text);
        }
        if (!seen.count(ob.modelKey)) {
          seen[ob.modelKey] = H2;
          frontier.push_back(ob.modelKey);
          depthMax = std::max(depthMax, (int)H2.size());
        }
      }
    }
    r.evals = transitions;
    r.counters["states"] += (long long)seen.size();
    r.counters["transitions"] += (long long)transitions;
    r.counters["differential_checks"] += (long long)diffChecks;
    r.counters["max_depth"] = depthMax;
    r.counters["bases_depth_capped"] += capped ? 1 : 0;
    r.counters["bases_fixpoint"] += capped ? 0 : 1;
    for (auto& o : outcomes) r.nontrivial(describe(bi) + o);
  }
  std::string rule() override {
    return "per base configuration (two rulesets, drop-in permission combinations, two base hooks): BFS over reference-model "
           "states; operations add(tag,content) for 12 contents (detectors / actions / both / other ruleset / multi-ruleset / valid target followed by an unknown one / "
           "two rulesets on the same base / unknown ruleset / with hook / hook only / empty) and remove(tag), applied through the real DropInServiceAdaptor "
           "inside Oomd::run; after every operation: scripted tick call order, fresh plugin instances per copy, "
           "oomd.dropin.added, private drop-in bookkeeping, hook priority (fired hook + full order) vs model; plus differential "
           "reversibility (H+remove(t) vs H without t) and batching (all operations of H within one interval vs one per interval) on the real code; non-trivial = distinct final observation";
  }
  Json::Value bounds() override {
    Json::Value b;
    b["tags"] = tier_ == "thorough" ? "2 (to fixpoint, histories <= 5) and 3 (every history of <= 3 operations)" : "2";
    b["contents"] = (int)C_NCONTENT;
    b["max_history_length"] = maxDepth;
    b["base_permission_combinations"] = (int)bases.size();
    b["search"] = "fixpoint when bases_depth_capped == 0, otherwise complete up to max_history_length operations";
    return b;
  }
  std::vector<std::string> assumptions() override {
    return {"a refused re-add leaves the tag's previous content active (the statement only demands that the refused drop-in "
            "leaves nothing behind)",
            "drop-ins arrive through DropInServiceAdaptor::updateDropIns (remove-then-add per tag), the only production path"};
  }
  double scenarioTimeoutSec() override { return 600; }
};
}  // namespace
int main(int argc, char** argv) {
  C13 d;
  return vr::main(argc, argv, d);
}
