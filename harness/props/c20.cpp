// C20 - Async logger.  The real Oomd::Log in async mode (get_for_unittest) with a harness streambuf
// sink whose writes are scheduling points that an environment thread can block; producer threads,
// the real flusher thread, the environment thread and shutdown are run under the cooperative
// scheduler and ALL schedules within the preemption bound are enumerated (one process each).
#include <fcntl.h>

#include <map>
#include <memory>
#include <sstream>
#include <streambuf>
#include <thread>

#include "common/runner.h"
#include "oomd/Log.h"
#include "sched/explore.h"

namespace {
const size_t KiB = 1024, MiB = 1024 * 1024;

struct Cfg {
  std::string name;
  std::vector<std::vector<size_t>> msgs;  // per producer: message sizes
  bool envBlocks;                         // an environment thread blocks / unblocks the sink
  bool silence;                           // producer 0 logs through LogStream with DISABLE / ENABLE
  int pb;
  bool twoEpisodes = false;  // scripted: overflow while the sink is blocked, drain (the drop notice is written), overflow again
};

struct Sink : std::streambuf {
  std::string lines;         // payload of log lines as written
  std::string all;           // everything written
  bool blocked = false;
  size_t writtenLineBytes = 0;
  std::function<void()> onWrite;
  std::streamsize xsputn(const char* s, std::streamsize n) override {
    vs::pointIf([this] { return !blocked; }, "sink write");
    all.append(s, (size_t)n);
    if (onWrite) onWrite();
    return n;
  }
  int overflow(int c) override {
    if (c != EOF) {
      char ch = (char)c;
      xsputn(&ch, 1);
    }
    return c;
  }
  int sync() override {
    vs::yield("sink flush");
    return 0;
  }
};

struct C20 : vr::Driver {
  std::vector<Cfg> cfgs;
  std::string tier_;
  std::string sanPrefix_;
  std::string id() override { return "C20"; }
  void configure(const std::string& tier, uint64_t) override {
    tier_ = tier;
    bool th = tier == "thorough";
    int pb = th ? 3 : 2;
    size_t S = 32, L = 512 * KiB;
    cfgs.push_back({"1 producer x 2 small", {{S, S}}, false, false, pb});
    cfgs.push_back({"2 producers x 1 small", {{S}, {S}}, false, false, pb});
    cfgs.push_back({"2 producers x 2 small", {{S, S}, {S, S}}, false, false, pb});
    cfgs.push_back({"1 producer x 3 large (third exceeds the 1 MiB cap while the sink is blocked)", {{L, L, L}}, true, false, pb});
    cfgs.push_back({"2 producers: 2 large + 1 large", {{L, L}, {L}}, true, false, th ? 2 : 1});
    cfgs.push_back({"1 producer x 3 small with a blocking sink", {{S, S, S}}, true, false, pb});
    cfgs.push_back({"2 producers x 2 small, producer 0 silenced", {{S, S}, {S, S}}, false, true, th ? 2 : 1});
    // mixed line lengths within one batch (a 6000-byte and a 70000-byte line between short ones): per-thread order is by logging time
    cfgs.push_back({"1 producer: small small 6000B small 70000B small", {{S, S, 6000, S, 70000, S}}, false, false, th ? 2 : 1});
    cfgs.push_back({"2 producers: small 6000B small | small", {{S, 6000, S}, {S}}, true, false, 1});
    {
      // second overflow after a first one has been reported: the backlog accounting must not drift (16-byte line on top of 1 MiB)
      Cfg c{"1 producer: L L L(dropped) | drain | L L 16B(on top of a full backlog)", {{L, L, L, L, L, 16}}, true, false, th ? 2 : 1};
      c.twoEpisodes = true;
      cfgs.push_back(c);
    }
    if (th) {
      cfgs.push_back({"3 producers x 1 small", {{S}, {S}, {S}}, false, false, 2});
      cfgs.push_back({"2 producers x 3 small", {{S, S, S}, {S, S, S}}, false, false, 2});
      cfgs.push_back({"1 producer: small large large large small", {{S, L, L, L, S}}, true, false, 2});
    }
  }
  size_t count() override { return cfgs.size(); }
  std::string describe(size_t i) override { return cfgs[i].name + ", preemption bound " + std::to_string(cfgs[i].pb); }
  std::string klass(size_t) override { return "log"; }
  double scenarioTimeoutSec() override { return 3000; }
  bool tieBreakNondeterminism() override { return true; }
  double deadlineSec(const std::string& tier) override { return tier == "quick" ? 200 : 1500; }

  static std::string lineOf(int p, int m, size_t size) {
    std::string h = "P" + std::to_string(p) + "M" + std::to_string(m) + ":";
    std::string s = h + std::string(size > h.size() + 1 ? size - h.size() - 1 : 0, (char)('a' + (p * 7 + m) % 26)) + "\n";
    return s;
  }

  vx::Body bodyFor(const Cfg& c) {
    return [c](vx::Result& r) {
      Sink sink;
      std::ostream os(&sink);
      std::string kpath = "/dev/shm/c20-kmsg." + std::to_string(getpid());
      int kfd = ::open(kpath.c_str(), O_RDWR | O_CREAT | O_TRUNC, 0600);
      auto log = Oomd::Log::get_for_unittest(kfd, os, false);
      size_t producedLines = 0, acceptedLines = 0, refused = 0;
      size_t maxUnwritten = 0;
      std::string violation;
      auto parseWritten = [&]() {
        // payload bytes written so far = everything except the "...\nN messages dropped\n...\n" notices
        size_t bytes = 0, pos = 0;
        const std::string& a = sink.all;
        while (pos < a.size()) {
          size_t e = a.find('\n', pos);
          size_t len = (e == std::string::npos ? a.size() : e + 1) - pos;
          std::string head = a.substr(pos, std::min<size_t>(len, 24));
          bool notice = head.rfind("...", 0) == 0 || head.find("messages dropped") != std::string::npos;
          if (!notice) bytes += len;
          pos += len;
        }
        return bytes;
      };
      // Event log of the execution: 'P' = a producer's log call has returned (the line is either queued or refused now),
      // 'W' = the sink has received bytes.  Whether a line was ACCEPTED is decided after the run from public behaviour only (it
      // reached the sink, the rest must be covered by the "N messages dropped" notices); the backlog bound is then evaluated at
      // every event of this log.
      struct Ev {
        char kind;
        int p, m;
        size_t size, written;
      };
      int episode = 0;  // twoEpisodes script: 0 not started, 1 sink blocked (first overflow), 2 drained and blocked again
      std::vector<Ev> events;
      sink.onWrite = [&] { events.push_back({'W', -1, -1, 0, parseWritten()}); };
      std::vector<std::thread> producers;
      std::vector<std::vector<std::string>> sent(c.msgs.size());
      for (size_t p = 0; p < c.msgs.size(); p++) {
        producers.emplace_back([&, p] {
          if (c.silence && p == 0) Oomd::LogStream(*log) << Oomd::LogStream::Control::DISABLE;
          for (size_t m = 0; m < c.msgs[p].size(); m++) {
            std::string line = lineOf((int)p, (int)m, c.msgs[p][m]);
            sent[p].push_back(line);
            if (c.silence) {
              // through the stream front end (adds the trailing newline itself)
              std::string body = line.substr(0, line.size() - 1);
              Oomd::LogStream(*log) << body;
              if (p == 0 && m == 0) log->kmsgLog("kill-record-from-silenced-thread", "oomd kill");
            } else {
              log->debugLog(std::string(line));
            }
            producedLines++;
            events.push_back({'P', (int)p, (int)m, line.size(), parseWritten()});
            if (c.twoEpisodes && m == 2) vs::pointIf([&] { return episode >= 2; }, "producer waits for the second episode");
          }
          if (c.silence && p == 0) Oomd::LogStream(*log) << Oomd::LogStream::Control::ENABLE;
        });
      }
      std::thread env;
      if (c.twoEpisodes) {
        sink.blocked = true;  // blocked from the start: nothing reaches the sink during the first episode
        episode = 1;
        env = std::thread([&] {
          vs::pointIf([&] { return producedLines >= 3; }, "env waits for the first overflow");
          sink.blocked = false;
          // wait until the flusher has written everything it had (it goes back to waiting) and the producer is parked
          vs::pointIf([] { return vs::othersBlocked(); }, "env waits for the drain");
          sink.blocked = true;
          episode = 2;
          vs::pointIf([&] { return producedLines >= 6; }, "env waits for the second overflow");
          sink.blocked = false;
        });
      } else if (c.envBlocks) {
        env = std::thread([&] {
          vs::yield("env: block sink");
          sink.blocked = true;
          vs::yield("env: unblock sink");
          sink.blocked = false;
        });
      }
      for (auto& t : producers) t.join();
      if (env.joinable()) env.join();
      sink.blocked = false;
      log.reset();  // ~Log: must flush everything accepted so far
      // ---- oracle -------------------------------------------------------------------------
      std::map<std::string, int> seen;
      size_t reportedDropped = 0;
      {
        std::stringstream ss(sink.all);
        std::string ln;
        std::vector<size_t> lastIdx(c.msgs.size(), 0);
        while (std::getline(ss, ln)) {
          if (ln.rfind("...", 0) == 0) continue;
          if (ln.find(" messages dropped") != std::string::npos) {
            reportedDropped += (size_t)atoll(ln.c_str());
            continue;
          }
          std::string key = ln.substr(0, std::min<size_t>(ln.size(), 12));
          // the stream front end prefixes nothing in this harness (LogStream(*log) << body), direct lines start with P<p>M<m>:
          size_t pp = ln.find('P');
          if (pp == std::string::npos) continue;
          int p = atoi(ln.c_str() + pp + 1);
          size_t mp = ln.find('M', pp);
          int m = mp == std::string::npos ? -1 : atoi(ln.c_str() + mp + 1);
          std::string id = "P" + std::to_string(p) + "M" + std::to_string(m);
          if (++seen[id] > 1 && violation.empty()) violation = "duplicate-line\x01line " + id + " was written " + std::to_string(seen[id]) + " times";
          if (p >= 0 && p < (int)c.msgs.size()) {
            if ((size_t)m + 1 < lastIdx[p] + 0 && violation.empty()) violation = "order\x01" + id + " written after a later line of the same thread";
            if ((size_t)m + 1 > lastIdx[p]) lastIdx[p] = (size_t)m + 1;
            if (c.silence && p == 0 && violation.empty()) violation = "silenced-line-written\x01" + id + " of the silenced thread reached the sink";
          }
          (void)key;
        }
      }
      // accepted = reached the sink; every other produced line (of a thread that is not silenced) must be covered by a drop notice
      for (size_t p = 0; p < c.msgs.size(); p++)
        for (size_t m = 0; m < c.msgs[p].size(); m++) {
          bool silenced = c.silence && p == 0;
          std::string id = "P" + std::to_string(p) + "M" + std::to_string(m);
          if (seen.count(id))
            acceptedLines++;
          else if (!silenced)
            refused++;
        }
      if (violation.empty() && reportedDropped != refused)
        violation = "drop-report\x01" + std::to_string(producedLines) + " lines were produced, " + std::to_string(acceptedLines) + " reached the sink before ~Log returned, so " +
                    std::to_string(refused) + " must have been refused - but the output reports " + std::to_string(reportedDropped) + " dropped (a line was lost, or dropped silently)";
      // backlog bound at every event
      {
        size_t acc = 0;
        for (auto& e : events) {
          if (e.kind == 'P' && seen.count("P" + std::to_string(e.p) + "M" + std::to_string(e.m))) acc += e.size;
          size_t unwritten = acc > e.written ? acc - e.written : 0;
          maxUnwritten = std::max(maxUnwritten, unwritten);
          if (unwritten > MiB && violation.empty())
            violation = "backlog-exceeds-1MiB\x01" + std::to_string(unwritten) + " bytes accepted but not yet written (cap is " + std::to_string(MiB) + ")";
        }
      }
      if (violation.empty() && c.silence) {
        std::string k;
        char b[4096];
        ::lseek(kfd, 0, SEEK_SET);
        int kf = ::open(kpath.c_str(), O_RDONLY);
        ssize_t n = kf >= 0 ? ::read(kf, b, sizeof b - 1) : 0;
        if (kf >= 0) ::close(kf);
        if (n > 0) k.assign(b, n);
        if (k.find("kill-record-from-silenced-thread") == std::string::npos) violation = "kmsg-record-suppressed\x01the kill record logged by the silenced thread did not reach the kmsg sink";
      }
      ::unlink(kpath.c_str());
      std::ostringstream ob;
      ob << "accepted=" << acceptedLines << " refused=" << refused << " reported=" << reportedDropped << " maxUnwritten=" << (maxUnwritten > MiB ? ">1MiB" : maxUnwritten > 512 * KiB ? ">512K" : "small") << " order=";
      {
        std::stringstream ss(sink.all);
        std::string ln;
        while (std::getline(ss, ln)) ob << ln.substr(0, 5) << ",";
      }
      r.obs = ob.str();
      if (!violation.empty()) {
        auto p = violation.find('\x01');
        r.rule = violation.substr(0, p);
        r.detail = violation.substr(p + 1);
      }
    };
  }

  void run(size_t ci, vr::Result& r, bool verbose) override {
    const Cfg& c = cfgs[ci];
    vx::Stats st;
    std::map<std::string, std::pair<std::string, std::vector<int>>> firstByRule;
    std::map<std::string, size_t> countByRule;
    const char* tmp = getenv("VERIF_SAN_PREFIX");
    bool done = vx::explore(bodyFor(c), c.pb, tier_ == "thorough" ? 400000 : 60000, tier_ == "thorough" ? 1200 : 150, 4, st,
                            [&](const vx::Result& res, const std::vector<int>& prefix) {
                              if (res.status == vx::S_OK) return;
                              std::string rule = res.status == vx::S_VIOLATION ? "monitor:" + res.rule : std::string(vx::statusName(res.status));
                              countByRule[rule]++;
                              if (!firstByRule.count(rule)) {
                                std::vector<int> ch = res.trace.empty() ? prefix : res.choices();
                                firstByRule[rule] = {res.detail, ch};
                              }
                            },
                            20000, tmp ? tmp : "");
    for (auto& kv : firstByRule) {
      std::string sched;
      for (int ch : kv.second.second) sched += std::to_string(ch) + ",";
      r.violate("C20|log|" + kv.first, describe(ci) + "\n" + kv.second.first + "\nschedule (choices): " + sched + "\n(" + std::to_string(countByRule[kv.first]) + " schedules of this configuration)");
    }
    r.evals = st.schedules;
    r.counters["states"] += (long long)st.outcomes.size();
    r.counters["transitions"] += (long long)st.schedules;
    r.counters["schedules"] += (long long)st.schedules;
    r.counters["nd_schedules_re_executed_after_divergence_or_timeout"] += (long long)st.retries;
    r.counters["max_trace_points"] = std::max<long long>(r.counters["max_trace_points"], (long long)st.maxTrace);
    r.counters["configs_bound_completed"] += done ? 1 : 0;
    r.counters["configs_capped"] += done ? 0 : 1;
    r.counters["max_preemption_bound_completed"] = st.boundCompleted;
    for (auto& o : st.outcomes) r.nontrivial(c.name + o);
    if (verbose)
      for (auto& o : st.outcomes) printf("  outcome: %s\n", o.substr(0, 200).c_str());
  }
  std::string rule() override {
    return "per configuration (producers x messages x sizes 32 B / 512 KiB, optional environment thread blocking the sink, optional per-thread silencing): ALL schedules "
           "of producers x real flusher thread x environment thread x shutdown with at most PB preemptions, each executed in a fresh process on the real Oomd::Log under "
           "the cooperative scheduler (scheduling points: mutex lock, condition wait, thread create/join, sink write/flush); oracle per schedule: every accepted line in the "
           "sink exactly once, per-thread order, all accepted lines present when ~Log returns, accepted-but-unwritten bytes <= 1 MiB at every step, refused lines = reported "
           "'N messages dropped', silenced thread's lines absent while its kmsg record is present, no deadlock / livelock / crash; states = distinct outcomes, transitions = schedules";
  }
  Json::Value bounds() override {
    Json::Value b;
    b["preemption_bound"] = tier_ == "thorough" ? 3 : 2;
    b["threads"] = "1-3 producers + flusher + optional environment thread + main (shutdown)";
    b["timeouts"] = "none in this component";
    return b;
  }
  std::vector<std::string> assumptions() override {
    return {"scheduling-point granularity: data-race freedom between points is checked separately by the free-running ThreadSanitizer pass (tsan_* counters)",
            "unlock and notify are not scheduling points (a preemption there is equivalent to one at the thread's next point)"};
  }
};
}  // namespace
int main(int argc, char** argv) {
  C20 d;
  return vr::main(argc, argv, d);
}
