// C03 - Victim order. Real kill plugins, wet, over simulated trees; attribute assignments
// (preference xattrs, memory.oom.group, populated, metric incl. ties, kill outcome) enumerated
// with the choice-point explorer (full product on the small axes, deviation-bounded on the rest).
// Oracle: reference search yielding the SET of admissible attempt sequences (ties open).
#include <functional>
#include <set>

#include "common/explore.h"
#include "common/killsim.h"
#include "common/runner.h"

namespace {
using ks::Cg;

struct Node {
  std::string rel;
  int pref = 0, og = 0, pop = 1, metricSel = 0, outcome = 0;
  long long metric = 0;
};

struct Family {
  std::string name;
  std::vector<std::string> nodes;  // rel paths, parents first
  std::string pattern;
  bool recursive;
  std::string plugin;
  int userXattr;  // 0 trusted, 1 user, 2 prefer=user/avoid=trusted, 3 prefer=trusted/avoid=user
  int mode;  // 0: full product over (pref, metric, outcome) of all nodes; 1: deviation-bounded over all attributes
  int maxDev;
  bool hook = false;  // a prekill hook matching everything stays pending for one tick on its first invocation: the kill is
                      // deferred, and the search resumes from the saved candidate stack on the next tick
};

bool isParentOf(const std::string& p, const std::string& c) {
  return c.size() > p.size() + 1 && c.compare(0, p.size() + 1, p + "/") == 0 && c.find('/', p.size() + 1) == std::string::npos;
}

struct Item {
  int fam;
  std::vector<unsigned char> choice;
};
struct ListChooser {  // replays a precomputed assignment
  const std::vector<unsigned char>& v;
  size_t pos = 0;
  int choose(int) { return pos < v.size() ? v[pos++] : 0; }
};

struct C03 : vr::Driver {
  std::vector<Family> fams;
  std::vector<Item> items;
  std::string tier_;
  // arities of the choice points of a family, in the order the body draws them
  std::vector<int> arities(const Family& f) {
    std::vector<int> a;
    for (size_t i = 0; i < f.nodes.size(); i++) {
      bool matched = rg::pathMatch(f.pattern, f.nodes[i]);
      if (f.mode == 0) {
        if (matched) {
          a.push_back(4);
          a.push_back(3);
          a.push_back(2);
        }
      } else {
        a.push_back(4);
        a.push_back(2);
        a.push_back(2);
        a.push_back(3);
        a.push_back(2);
      }
    }
    return a;
  }
  void enumerate(int fi) {
    auto ar = arities(fams[fi]);
    int maxDev = fams[fi].mode == 0 ? (int)ar.size() : fams[fi].maxDev;
    std::vector<unsigned char> cur(ar.size(), 0);
    std::function<void(size_t, int)> rec = [&](size_t i, int dev) {
      if (i == ar.size()) {
        items.push_back({fi, cur});
        return;
      }
      cur[i] = 0;
      rec(i + 1, dev);
      if (dev < maxDev)
        for (int c = 1; c < ar[i]; c++) {
          cur[i] = (unsigned char)c;
          rec(i + 1, dev + 1);
        }
      cur[i] = 0;
    };
    rec(0, 0);
  }
  std::string id() override { return "C03"; }
  void configure(const std::string& tier, uint64_t) override {
    tier_ = tier;
    bool th = tier == "thorough";
    std::vector<std::string> flat = {"p", "p/a", "p/b", "p/c"};
    std::vector<std::string> two = {"p1", "p1/a", "p1/b", "p2", "p2/a", "p2/b"};
    std::vector<std::string> chain = {"p", "p/a", "p/a/x", "p/a/y", "p/b"};
    std::vector<std::string> plugins = {"kill_by_swap_usage", "kill_by_pressure"};
    if (th) {
      plugins.push_back("kill_by_memory_size_or_growth");
      plugins.push_back("kill_by_pg_scan");
      plugins.push_back("kill_by_io_cost");
    }
    for (auto& pl : plugins)
      for (int ux = 0; ux < 4; ux++) {
        if (ux && !th && pl != "kill_by_swap_usage") continue;
        fams.push_back({"flat3-product", flat, "p/*", false, pl, ux, 0, 0});
        if (ux >= 2) continue;  // mixed namespaces: the full product on the flat tree only
        fams.push_back({"flat3-recursive-dev", flat, "p", true, pl, ux, 1, th ? 3 : 2});
        fams.push_back({"two-parents-dev", two, "p*", true, pl, ux, 1, th ? 3 : 2});
        fams.push_back({"chain-dev", chain, "p", true, pl, ux, 1, th ? 3 : 2});
        fams.push_back({"two-parents-nonrecursive-dev", two, "p*", false, pl, ux, 1, 2});
      }
    // the same search resumed after a prekill hook deferred the first kill (rate-based plugins excluded: their ranking is taken
    // on the deferral tick, where every rate is still zero)
    for (auto& pl : {std::string("kill_by_swap_usage"), std::string("kill_by_pressure")}) {
      if (!th && pl != "kill_by_swap_usage") continue;
      fams.push_back({"flat3-product/deferred-by-hook", flat, "p/*", false, pl, 0, 0, 0, true});
      fams.push_back({"two-parents-dev/deferred-by-hook", two, "p*", true, pl, 0, 1, 2, true});
      if (th) fams.push_back({"chain-dev/deferred-by-hook", chain, "p", true, pl, 0, 1, 3, true});
    }
    for (size_t fi = 0; fi < fams.size(); fi++) enumerate((int)fi);
  }
  size_t count() override { return items.size(); }
  size_t chunk() override { return 32; }
  std::string describe(size_t i) override {
    std::string cs;
    for (auto c : items[i].choice) cs += std::to_string((int)c);
    return describeFam(items[i].fam) + " assignment=" + cs;
  }
  std::string describeFam(size_t i) {
    auto& f = fams[i];
    std::string n;
    for (auto& x : f.nodes) n += x + " ";
    return f.name + " plugin=" + f.plugin + " cgroup=" + f.pattern + " recursive=" + (f.recursive ? "1" : "0") + " xattr-ns=" +
           (f.userXattr == 0 ? "trusted" : f.userXattr == 1 ? "user" : f.userXattr == 2 ? "prefer:user,avoid:trusted" : "prefer:trusted,avoid:user") + " nodes={" + n + "} " +
           (f.hook ? "first kill deferred for one tick by a pending prekill hook; " : "") + (f.mode == 0 ? "full product of (pref x metric x outcome) per matched node" : "all attribute assignments with <= " + std::to_string(f.maxDev) + " deviations from the default node");
  }
  std::string klass(size_t i) override { return fams[items[i].fam].plugin; }
  void workerInit() override { sim::processInit(); }

  // ---- reference search (A.2): is `observed` one of the admissible attempt sequences? ----
  struct Ref {
    const std::vector<Node>& nodes;
    bool recursive;
    std::set<int> alive;                    // pids alive
    std::map<int, std::string> home;        // pid -> cgroup
    std::map<int, bool> dies;               // pid -> kill succeeds
    const Node* find(const std::string& rel) const {
      for (auto& n : nodes)
        if (n.rel == rel) return &n;
      return nullptr;
    }
    std::vector<const Node*> kids(const Node& p) const {
      std::vector<const Node*> r;
      for (auto& n : nodes)
        if (isParentOf(p.rel, n.rel)) r.push_back(&n);
      return r;
    }
    bool populated(const Node& n) const {
      for (int p : alive)
        if (ks::isUnderRel(home.at(p), n.rel)) return true;
      return false;
    }
    bool success(const Node& n) const {
      for (int p : alive)
        if (ks::isUnderRel(home.at(p), n.rel) && dies.at(p)) return true;
      return false;
    }
    static int prefRank(const Node& n) { return (n.pref & 1) ? 1 : (n.pref & 2) ? -1 : 0; }
    // all orderings of `set` consistent with (pref, metric) descending, ties permuted
    void orderings(std::vector<const Node*> set, const std::function<bool(const std::vector<const Node*>&)>& f, bool* done) const {
      std::sort(set.begin(), set.end(), [](const Node* a, const Node* b) {
        if (prefRank(*a) != prefRank(*b)) return prefRank(*a) > prefRank(*b);
        return a->metric > b->metric;
      });
      // permute inside tie groups
      std::function<void(size_t)> rec = [&](size_t start) {
        if (*done) return;
        if (start >= set.size()) {
          if (f(set)) *done = true;
          return;
        }
        size_t end = start + 1;
        while (end < set.size() && prefRank(*set[end]) == prefRank(*set[start]) && set[end]->metric == set[start]->metric) end++;
        std::vector<const Node*> grp(set.begin() + start, set.begin() + end);
        std::sort(grp.begin(), grp.end());
        do {
          std::copy(grp.begin(), grp.end(), set.begin() + start);
          rec(end);
        } while (!*done && std::next_permutation(grp.begin(), grp.end()));
      };
      rec(0);
    }
    // does some run of the search produce exactly `obs`?
    bool admits(std::vector<const Node*> stack /* best on top = back */, const std::vector<std::string>& obs, size_t k) const {
      while (!stack.empty()) {
        const Node* c = stack.back();
        stack.pop_back();
        if (recursive && !c->og) {
          auto ks_ = kids(*c);
          if (!ks_.empty()) {
            bool done = false;
            orderings(ks_, [&](const std::vector<const Node*>& ord) {
              auto st = stack;
              for (size_t i = ord.size(); i-- > 0;) st.push_back(ord[i]);  // best on top
              return admits(st, obs, k);
            }, &done);
            return done;
          }
        }
        if (!populated(*c)) continue;
        if (k >= obs.size() || obs[k] != c->rel) return false;
        k++;
        if (success(*c)) return k == obs.size();
      }
      return k == obs.size();
    }
  };

  void run(size_t idx, vr::Result& r, bool verbose) override {
    size_t fi = (size_t)items[idx].fam;
    const Family& f = fams[fi];
    size_t execs = 0, withFallback = 0, withTie = 0;
    std::set<std::string> outcomes;
    auto body = [&](ListChooser& ch) {
      execs++;
      std::vector<Node> nodes;
      for (size_t i = 0; i < f.nodes.size(); i++) {
        Node n;
        n.rel = f.nodes[i];
        bool matched = rg::pathMatch(f.pattern, n.rel) || (f.recursive && false);
        bool ranked = matched || (f.recursive && i > 0) || f.mode == 1;
        if (f.mode == 0) {
          if (!matched) {
            nodes.push_back(n);
            continue;
          }
          n.pref = ch.choose(4);
          n.metricSel = ch.choose(3);
          n.outcome = ch.choose(2);
        } else {
          (void)ranked;
          n.pref = ch.choose(4);
          n.og = ch.choose(2);
          n.pop = 1 - ch.choose(2);
          n.metricSel = ch.choose(3);
          n.outcome = ch.choose(2);
        }
        nodes.push_back(n);
      }
      // metrics: default distinct by index (later siblings larger); 1 = tie with the default of the next node; 2 = highest
      for (size_t i = 0; i < nodes.size(); i++) {
        long long def = 10 + 2 * (long long)i;
        nodes[i].metric = nodes[i].metricSel == 0 ? def : nodes[i].metricSel == 1 ? def + 2 : 100;
      }
      ks::Scenario s;
      s.plugin = f.plugin;
      s.args["cgroup"] = f.pattern;
      s.args["recursive"] = f.recursive ? "true" : "false";
      if (f.plugin == "kill_by_pressure") s.args["resource"] = "memory";
      if (f.plugin == "kill_by_memory_size_or_growth") s.args["size_threshold"] = "0";
      s.ticks = f.plugin == "kill_by_pg_scan" ? 3 : 2;
      if (f.hook) {
        s.hooksJson = "{\"name\":\"verif_hook\",\"args\":{\"id\":\"h\",\"cgroup\":\"/\"}}";
        s.hookTimeout = 30;
        s.hookDecide = [](const std::string&, long inv, int polls) { return inv >= 2 || polls >= 1; };  // only the very first invocation stays pending
        s.ticks += 1;
      }
      for (auto& n : nodes) {
        Cg c;
        c.rel = n.rel;
        bool leaf = true;
        for (auto& o : nodes)
          if (isParentOf(n.rel, o.rel)) leaf = false;
        c.nprocs = (leaf && n.pop) ? 2 : 0;
        c.pref = n.pref;
        c.userXattr = f.userXattr == 1;
        if (f.userXattr == 2) c.preferNs = 1, c.avoidNs = 0;
        if (f.userXattr == 3) c.preferNs = 0, c.avoidNs = 1;
        c.oomGroup = n.og;
        c.outcome = n.outcome ? 1 : 0;  // 1 = every kill fails with ESRCH -> nothing signalled
        // same key for every plugin's metric
        c.swap = n.metric << 20;
        c.mem = n.metric << 24;
        c.p10 = (double)n.metric;
        c.p60 = (double)n.metric;
        c.pgscan = n.metric * 10;
        s.cgs.push_back(c);
      }
      ks::Outcome o = ks::run(s, verbose);
      std::string where = describeFam(fi) + "\nassignment: " + s.describe();
      if (!o.rejected.empty()) {
        r.violate("C03|harness|config-rejected", o.rejected);
        return;
      }
      if (o.tick.escaped) {
        r.violate("C03|" + f.plugin + "|uncaught:" + o.tick.excType, where + "\n" + o.tick.excWhat + "\n" + o.tick.excFrames);
        return;
      }
      // io_cost: the rate is 0 on the first tick of a cgroup => every candidate ties; model that
      Ref ref{nodes, f.recursive, {}, o.pidHome, {}};
      for (auto& kv : o.pidHome) {
        ref.alive.insert(kv.first);
        const Node* n = ref.find(kv.second);
        ref.dies[kv.first] = n && n->outcome == 0;
      }
      std::vector<Node> tieNodes;
      for (int t = 1; t <= s.ticks; t++) {
        std::vector<std::string> obs;
        for (auto& a : o.attempts)
          if (a.tick == t) obs.push_back(a.victim);
        // did the kill plugin run its search on this tick? (pg_scan only samples on its first tick)
        bool searched = false;
        for (auto& c : o.calls)
          if (c.tick == t && c.id == "K" && c.method == "run" && c.ret != 2) searched = true;
        if (searched) {
          const std::vector<Node>* use = &nodes;
          if (f.plugin == "kill_by_io_cost" && t == 1) {
            tieNodes = nodes;
            for (auto& n : tieNodes) n.metric = 0;
            use = &tieNodes;
          }
          Ref rr{*use, f.recursive, ref.alive, ref.home, ref.dies};
          std::vector<const Node*> roots;
          for (auto& n : *use)
            if (rg::pathMatch(f.pattern, n.rel)) roots.push_back(&n);
          bool ok = false;
          rr.orderings(roots, [&](const std::vector<const Node*>& ord) {
            std::vector<const Node*> st;
            for (size_t i = ord.size(); i-- > 0;) st.push_back(ord[i]);
            return rr.admits(st, obs, 0);
          }, &ok);
          if (roots.empty()) ok = obs.empty();
          if (!ok) {
            std::string ob;
            for (auto& v : obs) ob += v + " ";
            std::ostringstream desc;
            for (auto& n : nodes)
              desc << "  " << n.rel << " pref=" << (n.pref & 1 ? "prefer" : n.pref & 2 ? "avoid" : "none") << (n.pref == 3 ? "(both)" : "")
                   << " oom.group=" << n.og << " metric=" << n.metric << " kill=" << (n.outcome ? "nothing-signalled" : "ok") << " populated="
                   << ref.populated(n) << "\n";
            r.violate("C03|" + f.plugin + "|model-mismatch:victim-order",
                      where + "\ntick " + std::to_string(t) + ": observed attempt sequence [" + ob +
                          "] is not admissible under the reference search\nnodes:\n" + desc.str());
            return;
          }
        } else if (!obs.empty()) {
          r.violate("C03|" + f.plugin + "|model-mismatch:attempt-on-sampling-tick", where);
          return;
        }
        if (obs.size() > 1) withFallback++;
        // apply this tick's kills to the reference world
        for (auto& a : o.attempts)
          if (a.tick == t)
            for (int p : a.okPids) ref.alive.erase(p);
      }
      bool tie = false;
      for (size_t i = 0; i + 1 < nodes.size(); i++)
        for (size_t j = i + 1; j < nodes.size(); j++) tie |= nodes[i].metric == nodes[j].metric;
      withTie += tie;
      std::string ob;
      for (auto& a : o.attempts) ob += std::to_string(a.tick) + a.victim + (a.signalled() ? "+" : "-") + ";";
      outcomes.insert(ob);
    };
    ListChooser lc{items[idx].choice};
    body(lc);
    r.evals = execs;
    r.counters["executions_with_fallback"] += (long long)withFallback;
    r.counters["executions_with_metric_tie"] += (long long)withTie;
    for (auto& ob : outcomes) r.nontrivial(fams[fi].name + fams[fi].plugin + ob);
  }
  std::string rule() override {
    return "per family (tree shape x plugin x recursive x xattr namespace): every assignment of per-node attributes pref "
           "{none,prefer,avoid,both} x memory.oom.group {0,1} x populated {1,0} x metric {distinct, tie with a sibling, highest} x "
           "kill outcome {signalled, nothing signalled}: full product on flat-3 for (pref,metric,outcome), all assignments with <= k "
           "deviations from the default node elsewhere; 2 ticks each (second tick sees the emptied victim); oracle: observed "
           "attempt sequence must be producible by the reference DFS (rank by (preference, metric) desc with ties open, descend iff "
           "recursive and not oom.group, skip unpopulated, fall back after an attempt that signalled nothing, stop at first "
           "success); non-trivial = distinct attempt log";
  }
  Json::Value bounds() override {
    Json::Value b;
    b["deviation_bound"] = tier_ == "thorough" ? 3 : 2;
    b["ticks"] = 2;
    b["shapes"] = "flat 3 siblings; 2 parents x 2 children; 3-level chain with siblings";
    return b;
  }
  std::vector<std::string> assumptions() override {
    return {"metric values are chosen so that every candidate passes the plugin's eligibility filter (eligibility is C09's subject)",
            "kill_by_io_cost ranks every cgroup equal on the first tick it sees it (rate 0): modelled as a tie"};
  }
  double scenarioTimeoutSec() override { return 900; }
};
}  // namespace
int main(int argc, char** argv) {
  C03 d;
  return vr::main(argc, argv, d);
}
