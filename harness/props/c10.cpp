// C10 - A tick survives missing, empty or vanishing cgroup files without crash or UB.
// Baseline: one "everything on" configuration (all core detectors, all five kill plugins, senpai in
// both modes, dump_cgroup_overview, a ruleset-level cgroup, a prekill hook) over 8 cgroups, 3 ticks
// through the real Oomd::run.  Fault space, enumerated completely: (1) every (cgroup role x control
// file) x {absent, empty, unreadable}; optional keys removed from /proc/vmstat, /proc/meminfo,
// memory.stat; /proc/swaps absent/short; PSI legacy/truncated; DT_UNKNOWN; (2) pairs of (1);
// (3) for EVERY index k of the run's file-access sequence x every role: the cgroup is removed, or
// removed and re-created, immediately before access k.  Oracle: the run reaches its horizon with no
// sanitizer report, no exception out of Oomd::run, no hang, and kill containment stays intact.
#include <fcntl.h>
#include <sys/wait.h>
#include <unistd.h>

#include <algorithm>
#include <cstring>
#include <set>

#include "common/boundary.h"
#include "common/runner.h"
#include "common/sim.h"
#include "common/world.h"

namespace {
const long long MB = 1LL << 20;
const char* kRoles[] = {"w/a/x", "w/a", "w/b", "w/c", "s/t", "rc/m1", "", "w"};
const char* kRoleName[] = {"victim-leaf", "victim-parent", "sibling", "detector-target", "senpai-target", "ruleset-cgroup", "root", "slice"};
const int kNRoles = 8;
const char* kFiles[] = {"cgroup.controllers", "cgroup.procs", "cgroup.events", "cgroup.stat", "cgroup.kill", "cgroup.freeze", "memory.current", "memory.min", "memory.low", "memory.high", "memory.max",
                        "memory.stat", "memory.pressure", "io.pressure", "memory.swap.current", "memory.swap.max", "memory.oom.group", "io.stat", "pids.current", "memory.reclaim"};
const int kNFiles = sizeof kFiles / sizeof kFiles[0];
const char* kKinds[] = {"absent", "empty", "unreadable"};

struct Fault {
  int type;  // 0 file fault, 1 global fault, 2 access-point event
  int role = 0, file = 0, kind = 0;
  int global = 0;
  long access = 0;
  int event = 0;  // 0 remove, 1 remove + re-create
  std::string str() const {
    if (type == 0) return std::string(kKinds[kind]) + ":" + kFiles[file] + "@" + kRoleName[role];
    if (type == 1) return "global:" + std::to_string(global);
    return std::string(event ? "recreate" : "remove") + ":" + kRoleName[role] + "@access#" + std::to_string(access);
  }
  std::string cls() const {
    if (type == 0) return std::string(kKinds[kind]) + ":" + kFiles[file] + "@" + kRoleName[role];
    if (type == 1) return "global:" + std::to_string(global);
    return std::string(event ? "recreate" : "remove") + "@" + kRoleName[role];
  }
};
const char* kGlobals[] = {"vmstat without pswpout", "vmstat absent", "vmstat empty", "meminfo without MemTotal", "meminfo without SwapTotal", "meminfo absent", "meminfo empty",
                          "swaps absent", "swaps header only", "swaps short line", "swaps empty", "memory.stat without pgscan (all cgroups)", "memory.stat without active_file/inactive_file (all)",
                          "memory.stat without anon (all)", "PSI legacy format (all cgroups)", "PSI truncated line (all cgroups)", "PSI only 'some' line (all)", "d_type = DT_UNKNOWN",
                          "swappiness absent", "swappiness empty", "/proc/pressure absent", "memory.stat without active_anon/inactive_anon (all)", "io.stat garbage-free but short line (all)"};
const int kNGlobals = sizeof kGlobals / sizeof kGlobals[0];

struct Item {
  int cfg;  // 0 everything, 1 kill only, 2 senpai only, 3 detectors only
  std::vector<Fault> faults;
};

const char* kAllDetectors =
    "{\"name\":\"pressure_above\",\"args\":{\"cgroup\":\"w/*\",\"resource\":\"memory\",\"threshold\":\"10\",\"duration\":\"0\"}},"
    "{\"name\":\"pressure_rising_beyond\",\"args\":{\"cgroup\":\"w/*,/\",\"resource\":\"io\",\"threshold\":\"10\",\"duration\":\"0\"}},"
    "{\"name\":\"memory_above\",\"args\":{\"cgroup\":\"w/*\",\"threshold\":\"10%\",\"duration\":\"0\"}},"
    "{\"name\":\"memory_above\",\"args\":{\"cgroup\":\"w/c\",\"threshold_anon\":\"1M\",\"duration\":\"0\"}},"
    "{\"name\":\"memory_reclaim\",\"args\":{\"cgroup\":\"w/*\",\"duration\":\"10\"}},"
    "{\"name\":\"swap_free\",\"args\":{\"threshold_pct\":\"50\",\"swapout_bps_threshold\":\"1\"}},"
    "{\"name\":\"exists\",\"args\":{\"cgroup\":\"w/c,w/zz*\"}},"
    "{\"name\":\"nr_dying_descendants\",\"args\":{\"cgroup\":\"w/*,/\",\"count\":\"100\"}},"
    "{\"name\":\"dump_cgroup_overview\",\"args\":{\"cgroup\":\"w/*,s/*\",\"always\":\"true\"}}";
std::string killJ(const std::string& name, const std::string& extra) {
  return "{\"name\":\"" + name + "\",\"args\":{\"always_continue\":\"true\"" + extra + "}}";
}
std::string configJson(int cfg) {
  std::string det = std::string("{\"name\":\"RD\",\"post_action_delay\":\"0\",\"detectors\":[[\"gd\",") + kAllDetectors + "]],\"actions\":[{\"name\":\"continue\",\"args\":{}}]}";
  std::string kill = "{\"name\":\"RK\",\"post_action_delay\":\"0\",\"detectors\":[[\"gk\",{\"name\":\"continue\",\"args\":{}}]],\"actions\":[" +
                     killJ("kill_by_memory_size_or_growth", ",\"cgroup\":\"w\",\"recursive\":\"true\"") + "," + killJ("kill_by_swap_usage", ",\"cgroup\":\"w/*\",\"biased_swap_kill\":\"true\",\"threshold\":\"0\"") + "," +
                     killJ("kill_by_pressure", ",\"cgroup\":\"w/*,/\",\"resource\":\"memory\",\"recursive\":\"true\"") + "," + killJ("kill_by_io_cost", ",\"cgroup\":\"w/*\",\"kernelkill\":\"true\"") + "," +
                     killJ("kill_by_pg_scan", ",\"cgroup\":\"w/*\",\"recursive\":\"true\"") + "]}";
  std::string senpai = "{\"name\":\"RS\",\"post_action_delay\":\"0\",\"detectors\":[[\"gs\",{\"name\":\"continue\",\"args\":{}}]],\"actions\":[{\"name\":\"senpai\",\"args\":{\"cgroup\":\"s/*\",\"interval\":\"1\"}},"
                       "{\"name\":\"senpai\",\"args\":{\"cgroup\":\"s/*\",\"interval\":\"1\",\"immediate_backoff\":\"true\",\"swap_validation\":\"true\",\"modulate_swappiness\":\"true\"}}]}";
  std::string rc = "{\"name\":\"RC\",\"cgroup\":\"rc/*\",\"post_action_delay\":\"0\",\"detectors\":[[\"gc\",{\"name\":\"continue\",\"args\":{}}]],\"actions\":[" + killJ("kill_by_pressure", ",\"resource\":\"io\"") + "]}";
  std::string hooks = ",\"prekill_hooks\":[{\"name\":\"dummy_prekill_hook\",\"args\":{\"cgroup\":\"/\"}}]";
  // cfg 4: the kill rulesets behind a scripted hook that stays pending for one tick per invocation, so that every kill is
  // deferred and resumed from its serialized candidate stack (cgroups may vanish / be re-created in between)
  if (cfg == 4) hooks = ",\"prekill_hooks\":[{\"name\":\"verif_hook\",\"args\":{\"id\":\"h\",\"cgroup\":\"/\"}}]";
  std::string rs = cfg == 0 ? det + "," + kill + "," + senpai + "," + rc : (cfg == 1 || cfg == 4) ? kill + "," + rc : cfg == 2 ? senpai : det;
  return "{\"rulesets\":[" + rs + "]" + hooks + "}";
}

struct C10 : vr::Driver {
  std::vector<Item> items;
  std::string tier_;
  long accessesBaseline[5] = {0, 0, 0, 0, 0};
  static const int kTicks = 3;
  std::string id() override { return "C10"; }

  // ---- world ------------------------------------------------------------------------------
  std::map<int, std::string> pidHome;
  int nextPid = 2000;
  void mkLeaf(const std::string& rel, int idx, int nprocs) {
    world::mkcg(rel);
    world::setMem(rel, (long long)(idx + 1) * 200 * MB);
    world::setFile(rel, "memory.swap.current", std::to_string((long long)(idx + 1) * 10 * MB) + "\n");
    world::setFile(rel, "memory.low", std::to_string(50 * MB) + "\n");
    world::setMemStat(rel, {{"anon", 100 * MB}, {"file", 60 * MB}, {"shmem", 1}, {"active_anon", 60 * MB}, {"inactive_anon", 40 * MB}, {"active_file", 20 * MB}, {"inactive_file", 40 * MB}, {"pgscan", 1000LL * (idx + 1)}});
    world::Psi p{20.0 + idx, 15.0 + idx, 5.0, 100000LL * (idx + 1)};
    world::setPsi(rel, "memory", p, p);
    world::setPsi(rel, "io", p, p);
    world::setFile(rel, "io.stat", "8:0 rbytes=" + std::to_string(4096 * (idx + 1)) + " wbytes=8192 rios=1 wios=2 dbytes=0 dios=0\n");
    world::setFile(rel, "memory.reclaim", "");
    for (int k = 0; k < nprocs; k++) {
      world::addProc(nextPid, rel);
      pidHome[nextPid++] = rel;
    }
  }
  void buildWorld() {
    world::reset();
    pidHome.clear();
    nextPid = 2000;
    world::setMeminfo(16777216, 8388608, 2097152, 1048576);
    world::setSwaps(2097152, 1048576);
    world::setProc("vmstat", "pgscan_kswapd 10\npswpin 5\npswpout 100\n");
    const char* leaves[] = {"w", "w/a", "w/a/x", "w/a/y", "w/b", "w/c", "s", "s/t", "rc", "rc/m1"};
    int i = 0;
    for (auto l : leaves) {
      bool leaf = std::string(l) == "w/a/x" || std::string(l) == "w/a/y" || std::string(l) == "w/b" || std::string(l) == "w/c" || std::string(l) == "s/t" || std::string(l) == "rc/m1";
      mkLeaf(l, i++, leaf ? 2 : 0);
    }
    world::syncProcs();
  }

  // ---- fault application ------------------------------------------------------------------
  struct Active {
    std::map<std::string, int> fileFault;  // absolute path -> kind
    long eventAt = -1;
    int eventRole = 0, eventKind = 0;
    bool eventDone = false;
  };
  void applyGlobal(int g) {
    auto forAll = [&](const std::function<void(const std::string&)>& f) {
      for (auto& rel : world::allCgroups())
        if (!rel.empty()) f(rel);
    };
    auto dropKeys = [&](const std::string& rel, std::initializer_list<const char*> keys) {
      std::string cur = world::getFile(rel, "memory.stat"), out;
      std::stringstream ss(cur);
      std::string line;
      while (std::getline(ss, line)) {
        bool drop = false;
        for (auto k : keys)
          if (line.compare(0, strlen(k) + 1, std::string(k) + " ") == 0) drop = true;
        if (!drop) out += line + "\n";
      }
      world::setFile(rel, "memory.stat", out);
    };
    switch (g) {
      case 0: world::setProc("vmstat", "pgscan_kswapd 10\npswpin 5\n"); break;
      case 1: world::rmProc("vmstat"); break;
      case 2: world::setProc("vmstat", ""); break;
      case 3: world::setProc("meminfo", "MemFree: 100 kB\nSwapTotal: 2097152 kB\nSwapFree: 100 kB\n"); break;
      case 4: world::setProc("meminfo", "MemTotal: 16777216 kB\nMemFree: 100 kB\n"); break;
      case 5: world::rmProc("meminfo"); break;
      case 6: world::setProc("meminfo", ""); break;
      case 7: world::rmProc("swaps"); break;
      case 8: world::setSwaps(-1, 0); break;
      case 9: world::setProc("swaps", "Filename\t\t\t\tType\t\tSize\t\tUsed\t\tPriority\n/dev/sda2 partition\t2097152\n"); break;
      case 10: world::setProc("swaps", ""); break;
      case 11: forAll([&](const std::string& r) { dropKeys(r, {"pgscan"}); }); break;
      case 12: forAll([&](const std::string& r) { dropKeys(r, {"active_file", "inactive_file"}); }); break;
      case 13: forAll([&](const std::string& r) { dropKeys(r, {"anon"}); }); break;
      case 14: forAll([&](const std::string& r) {
        world::setFile(r, "memory.pressure", "aggr 316016073\nsome 20.00 15.03 0.05\nfull 10.00 5.03 0.05\n");
        world::setFile(r, "io.pressure", "aggr 316016073\nsome 20.00 15.03 0.05\nfull 10.00 5.03 0.05\n");
      }); break;
      case 15: forAll([&](const std::string& r) {
        world::setFile(r, "memory.pressure", "some avg10=20.00 avg60=15.00\nfull avg10=10.00\n");
        world::setFile(r, "io.pressure", "some\nfull\n");
      }); break;
      case 16: forAll([&](const std::string& r) { world::setFile(r, "memory.pressure", "some avg10=20.00 avg60=15.00 avg300=1.00 total=100\n"); }); break;
      case 17: vb::dtUnknown = true; break;
      case 18: world::rmProc("sys/vm/swappiness"); break;
      case 19: world::setProc("sys/vm/swappiness", ""); break;
      case 20: world::rmProc("pressure/memory"); world::rmProc("pressure/io"); break;
      case 21: forAll([&](const std::string& r) { dropKeys(r, {"active_anon", "inactive_anon"}); }); break;
      case 22: forAll([&](const std::string& r) { world::setFile(r, "io.stat", "8:0 rbytes=1 wbytes=2\n"); }); break;
    }
  }

  // one execution; returns "" or "rule\x01text"
  std::string execute(const Item& it, long* accesses, bool verbose) {
    sim::resetScript();
    vb::resetLog();
    vb::clockNs = vb::kEpochNs;
    vb::dtUnknown = false;
    buildWorld();
    Active act;
    for (auto& f : it.faults) {
      if (f.type == 0) act.fileFault[world::cgfs() + (*kRoles[f.role] ? std::string("/") + kRoles[f.role] : "") + "/" + kFiles[f.file]] = f.kind;
      if (f.type == 1) applyGlobal(f.global);
      if (f.type == 2) {
        act.eventAt = f.access;
        act.eventRole = f.role;
        act.eventKind = f.event;
      }
    }
    std::string err;
    std::unique_ptr<Oomd::Oomd> o;
    try {
      sim::IoCfg io;
      io.devs["8:0"] = Oomd::DeviceType::SSD;
      o = sim::make(configJson(it.cfg), &err, 5, "", io);
    } catch (const std::exception& e) {
      return std::string("uncaught-at-load\x01") + e.what();
    }
    if (!o) return "";  // a fault present at start-up may make plugins refuse to initialise: rejected cleanly
    long base = vb::accessCount;
    vb::onAccess = [&](const char*, const std::string& path) -> int {
      long k = vb::accessCount - base;
      if (act.eventAt >= 0 && !act.eventDone && k >= act.eventAt) {
        act.eventDone = true;
        std::string rel = kRoles[act.eventRole];
        if (!rel.empty() && world::exists(rel)) {
          world::rmcg(rel);
          if (act.eventKind == 1) {
            mkLeaf(rel, 3, 2);
            world::syncProcs();
          }
        }
      }
      auto ff = act.fileFault.find(path);
      if (ff != act.fileFault.end()) {
        if (ff->second == 0) return ENOENT;
        if (ff->second == 2) return EACCES;
        vb::rawWrite(path, "");
      }
      return 0;
    };
    struct Guard {
      ~Guard() {
        vb::onAccess = nullptr;
        vb::dtUnknown = false;
      }
    } guard;
    if (it.cfg == 4) sim::hookDecide = [](const std::string&, long, int polls) { return polls >= 1; };
    auto out = sim::runTicks(*o, it.cfg == 4 ? 2 * kTicks : kTicks, [&](int k) {
      for (auto& rel : world::allCgroups())
        if (!rel.empty() && vb::rawExists(world::cgfs() + "/" + rel + "/memory.stat")) {
          // counters move between ticks
          std::string cur = world::getFile(rel, "memory.stat");
          if (cur.find("pgscan ") != std::string::npos) world::setMemStatKey(rel, "pgscan", 1000LL * k * (long long)(rel.size() + 1));
        }
      {
        std::string cur;
        if (vb::rawRead(world::procRoot() + "/vmstat", &cur) && cur.find("pswpout ") != std::string::npos)
          world::setProc("vmstat", "pgscan_kswapd 10\npswpin 5\npswpout " + std::to_string(100 * (k + 1)) + "\n");
      }
    });
    if (accesses) *accesses = vb::accessCount - base;
    if (out.escaped) return "escaped:" + out.excType + ":" + out.excWhat.substr(0, 48) + "\x01" + "exception left Oomd::run at tick " + std::to_string(out.ticks + 1) + ": " + out.excType + ": " + out.excWhat + "\nthrown from:\n" + out.excFrames;
    // kill containment under faults (C01): every signal is SIGKILL to a positive pid listed in the current victim's subtree
    std::string victim;
    bool haveVictim = false;
    for (auto& e : vb::effects) {
      if (e.kind == "setxattr" && e.arg == "trusted.oomd_kill_uuid") {
        std::string pre = world::cgfs();
        victim = e.path.size() > pre.size() ? e.path.substr(pre.size() + 1) : "";
        haveVictim = true;
      } else if (e.kind == "kill") {
        if (e.a <= 0 || e.b != 9) return std::string("containment\x01") + "kill(" + std::to_string(e.a) + "," + std::to_string(e.b) + ")";
        auto h = pidHome.find((int)e.a);
        if (!haveVictim || h == pidHome.end()) return std::string("containment\x01") + "pid " + std::to_string(e.a) + " signalled without a selected victim / never listed";
        const std::string& home = h->second;
        bool under = victim.empty() || home == victim || (home.size() > victim.size() && home.compare(0, victim.size() + 1, victim + "/") == 0);
        if (!under) return std::string("containment\x01") + "pid " + std::to_string(e.a) + " of " + home + " signalled while the victim is " + victim;
      }
    }
    if (verbose)
      for (auto& e : vb::effects) printf("  %s\n", e.str().substr(0, 200).c_str());
    return "";
  }

  void configure(const std::string& tier, uint64_t) override {
    tier_ = tier;
    bool th = tier == "thorough";
    // (1) static single faults, on the everything-on configuration and on the three slimmer ones
    for (int cfg = 0; cfg < 4; cfg++) {
      items.push_back({cfg, {}});
      if (cfg == 0) items.push_back({4, {}});
      for (int role = 0; role < kNRoles; role++)
        for (int file = 0; file < kNFiles; file++)
          for (int kind = 0; kind < 3; kind++) {
            if (cfg != 0 && !th && kind == 2) continue;
            Fault f;
            f.type = 0;
            f.role = role;
            f.file = file;
            f.kind = kind;
            items.push_back({cfg, {f}});
          }
      for (int g = 0; g < kNGlobals; g++) {
        Fault f;
        f.type = 1;
        f.global = g;
        items.push_back({cfg, {f}});
      }
    }
    // (2) pairs: within one cgroup (quick); all pairs of file faults on the three hot roles (thorough)
    for (int role = 0; role < kNRoles; role++)
      for (int f1 = 0; f1 < kNFiles; f1++)
        for (int f2 = f1 + 1; f2 < kNFiles; f2++)
          for (int k1 = 0; k1 < 2; k1++)
            for (int k2 = 0; k2 < 2; k2++) {
              if (!th && ((f1 + f2 + k1 * 2 + k2 + role) % 3)) continue;
              Fault a, b;
              a.type = b.type = 0;
              a.role = b.role = role;
              a.file = f1;
              b.file = f2;
              a.kind = k1;
              b.kind = k2;
              items.push_back({0, {a, b}});
            }
    for (int g1 = 0; g1 < kNGlobals; g1++)
      for (int g2 = g1 + 1; g2 < kNGlobals; g2++) {
        if (!th && ((g1 + g2) % 4)) continue;
        Fault a, b;
        a.type = b.type = 1;
        a.global = g1;
        b.global = g2;
        items.push_back({0, {a, b}});
      }
    // (3) access-point events: filled in after measuring the baseline access sequence length (done lazily per cfg in count())
    // The number of file accesses of the fault-free run is deterministic; measure it once here in a child-safe way.
    measured_ = false;
  }
  bool measured_ = false;
  void ensureMeasured() {
    if (measured_) return;
    measured_ = true;
    // run the fault-free baseline in a forked child (the parent must stay outside the mount namespace)
    int p[2];
    if (pipe(p) != 0) return;
    pid_t pid = fork();
    if (pid == 0) {
      close(p[0]);
      int dn = open("/dev/null", O_WRONLY);
      dup2(dn, 2);
      sim::processInit();
      long acc[5] = {0, 0, 0, 0, 0};
      for (int cfg : {0, 1, 4}) execute(Item{cfg, {}}, &acc[cfg], false);
      (void)!write(p[1], acc, sizeof acc);
      _exit(0);
    }
    close(p[1]);
    long acc[5] = {0, 0, 0, 0, 0};
    (void)!read(p[0], acc, sizeof acc);
    close(p[0]);
    int st;
    waitpid(pid, &st, 0);
    for (int k = 0; k < 5; k++) accessesBaseline[k] = acc[k];
    bool th = tier_ == "thorough";
    for (int cfg : {0, 1, 4}) {
      if (cfg == 1 && !th) continue;
      long n = accessesBaseline[cfg];
      long stride = 1;
      for (long k = 1; k <= n; k += stride)
        for (int role = 0; role < (cfg == 4 ? 4 : 6); role++)
          for (int ev = 0; ev < 2; ev++) {
            if (!th && ev == 1 && (k % 2)) continue;  // quick: re-creation at every second access point
            if (!th && cfg == 4 && ev == 0 && (k % 2) == 0) continue;  // quick, deferred-kill configuration: alternate removal / re-creation
            Fault f;
            f.type = 2;
            f.role = role;
            f.access = k;
            f.event = ev;
            items.push_back({cfg, {f}});
          }
    }
  }
  size_t count() override {
    ensureMeasured();
    return items.size();
  }
  size_t chunk() override { return 8; }
  std::string describe(size_t i) override {
    std::string s = std::string("config ") + (items[i].cfg == 0 ? "everything-on" : items[i].cfg == 1 ? "kill+ruleset-cgroup" : items[i].cfg == 2 ? "senpai" : items[i].cfg == 3 ? "detectors" : "kill+ruleset-cgroup behind a prekill hook pending one tick (6 ticks)") + " faults:";
    for (auto& f : items[i].faults) s += " [" + f.str() + (f.type == 1 ? std::string(" = ") + kGlobals[f.global] : "") + "]";
    if (items[i].faults.empty()) s += " none (baseline)";
    return s;
  }
  // coarse class for signatures (the exact fault is in the detail text and in the replay file)
  std::string klass(size_t i) override {
    if (items[i].faults.empty()) return "baseline";
    int t = items[i].faults[0].type;
    return t == 0 ? "file-fault" : t == 1 ? "global-fault" : "access-event";
  }
  std::string fine(size_t i) {
    std::string s;
    for (auto& f : items[i].faults) s += (s.empty() ? "" : "+") + f.cls();
    return s.empty() ? "baseline" : s;
  }
  void workerInit() override { sim::processInit(); }
  double scenarioTimeoutSec() override { return 10; }

  void run(size_t idx, vr::Result& r, bool verbose) override {
    const Item& it = items[idx];
    vr::note(describe(idx));
    long acc = 0;
    std::string v = execute(it, &acc, verbose);
    if (!v.empty()) {
      auto p = v.find('\x01');
      r.violate("C10|" + klass(idx) + "|" + v.substr(0, p), describe(idx) + "\n" + v.substr(p + 1));
    }
    r.counters["file_accesses"] += acc;
    r.counters["kills_observed"] += (long long)std::count_if(vb::effects.begin(), vb::effects.end(), [](const vb::Effect& e) { return e.kind == "kill"; });
    std::ostringstream ob;
    for (auto& e : vb::effects)
      if (e.kind == "kill" || e.kind == "ctlwrite") ob << e.kind[0] << e.a << e.path.substr(e.path.size() > 20 ? e.path.size() - 20 : 0) << ";";
    r.nontrivial(fine(idx) + ob.str());
    vr::note("");
  }
  std::string rule() override {
    return "baseline: everything-on configuration (9 detectors, 5 kill plugins wet/recursive/kernelkill, senpai in both modes, ruleset-level cgroup, prekill hook) and three "
           "slimmer ones, 10 cgroups, 3 ticks through Oomd::run. Faults enumerated completely: every (8 cgroup roles x 20 control files) x {absent, empty, unreadable}; 23 global "
           "faults (optional keys missing from vmstat/meminfo/memory.stat, /proc/swaps absent/short/empty, PSI legacy/truncated, DT_UNKNOWN, swappiness, /proc/pressure); pairs of "
           "file faults within a cgroup and pairs of global faults; and for EVERY index k of the fault-free run's file-access sequence x 6 roles: cgroup removed / removed and "
           "re-created immediately before access k. Oracle: horizon reached, no ASan/UBSan/assertion report, no exception out of Oomd::run, no hang, kill containment intact; "
           "non-trivial = distinct (fault class, effect log)";
  }
  Json::Value bounds() override {
    Json::Value b;
    b["ticks"] = kTicks;
    b["simultaneous_faults"] = 2;
    b["access_points_everything_on"] = (Json::Int64)accessesBaseline[0];
    return b;
  }
  std::vector<std::string> assumptions() override {
    return {"a fault already present when the configuration is loaded may make a plugin refuse to initialise; a cleanly rejected configuration counts as survived",
            "garbage (non-numeric) file contents are outside the statement (missing / empty / unreadable / vanishing only)"};
  }
};
}  // namespace
int main(int argc, char** argv) {
  C10 d;
  return vr::main(argc, argv, d);
}
