// C15 - Cgroup statistics equal the reference function of kernel files and tick history.
// The real Oomd::run loop refreshes the context; from inside a scripted action (i.e. during the
// tick) EVERY public accessor of CgroupContext is queried for every cgroup, a file is then mutated
// and everything is queried again (values must not move within a tick); next tick they must move.
// Scenario families enumerate file contents in the kernel's grammar one axis at a time plus full
// products for the formula inputs.  Oracle: reference functions (DESIGN.md A.4).
#include <cmath>
#include <set>

#include "common/boundary.h"
#include "common/runner.h"
#include "common/sim.h"
#include "common/world.h"
#include "oomd/CgroupContext.h"
#include "oomd/OomdContext.h"

namespace {
typedef long double ld;
const long long MAXV = 9223372036854775807LL;  // "max"

struct Dev {
  std::string id;
  long long rb, wb, ri, wi, db, di;
};
struct Node {
  std::string rel;
  bool exists = true;
  bool recreate = false;  // removed and re-created before this tick
  long long cur = 1 << 20, min = 0, low = 0, high = MAXV, max = MAXV, swapCur = 0, swapMax = MAXV;
  long long anon = 4096, file = 8192, shmem = 0, pgscan = 0;
  int statOrder = 0;      // 0 canonical, 1 reversed key order + extra keys
  int psiFormat = 0;      // 0 upstream, 1 legacy ("aggr")
  double m10 = 0.5, m60 = 0.25, m300 = 0.1, i10 = 1.5, i60 = 1.25, i300 = 1.0;
  long long mtotal = 1000, itotal = 2000;
  std::vector<Dev> io;
  int nprocs = 0;
  int nrDying = 0;
  int pref = 0;  // bit0 trusted prefer, bit1 trusted avoid, bit2 user prefer, bit3 user avoid
  int oomGroup = 0;
  int ioPadTo = 0;        // pad the first io.stat line with an extra (ignored) key up to this text length
  bool noIoStat = false;  // io.stat unreadable on this tick (the cgroup itself stays)
  bool noPgscan = false;  // memory.stat carries no pgscan line on this tick
};
struct Sys {
  long long memTotalKb = 16777216, memFreeKb = 4194304, swapTotalKb = 2097152, swapUsedKb = 524288;
  double m10 = 3.5, m60 = 2.5, m300 = 1.5;
};
struct Tick {
  std::vector<Node> nodes;
  Sys sys;
};
struct Scenario {
  std::string desc;
  std::vector<Tick> ticks;
  bool dtUnknown = false;
  bool customCoeffs = false;
  std::string mutateRel = "s/a";  // cgroup whose memory.current is rewritten inside the tick
};

std::string v2s(long long v) { return v == MAXV ? "max" : std::to_string(v); }

void writeNode(const Node& n) {
  if (n.recreate && world::exists(n.rel)) world::rmcg(n.rel);
  if (!n.exists) {
    if (world::exists(n.rel)) world::rmcg(n.rel);
    return;
  }
  world::mkcg(n.rel);
  world::setFile(n.rel, "memory.current", std::to_string(n.cur) + "\n");
  world::setFile(n.rel, "memory.min", v2s(n.min) + "\n");
  world::setFile(n.rel, "memory.low", v2s(n.low) + "\n");
  world::setFile(n.rel, "memory.high", v2s(n.high) + "\n");
  world::setFile(n.rel, "memory.max", v2s(n.max) + "\n");
  world::setFile(n.rel, "memory.swap.current", std::to_string(n.swapCur) + "\n");
  world::setFile(n.rel, "memory.swap.max", v2s(n.swapMax) + "\n");
  std::vector<std::pair<std::string, long long>> st = {{"anon", n.anon}, {"file", n.file}, {"kernel_stack", 7}, {"shmem", n.shmem}, {"inactive_anon", 1}, {"active_anon", 2}, {"inactive_file", 3}, {"active_file", 4}, {"pgscan", n.pgscan}, {"pgsteal", 5}};
  if (n.noPgscan) st.erase(st.begin() + 8);
  if (n.statOrder) {
    std::reverse(st.begin(), st.end());
    st.insert(st.begin() + 3, {"future_key_v7", 123});
    st.push_back({"zz_unknown", 0});
  }
  std::string ms;
  for (auto& kv : st) ms += kv.first + " " + std::to_string(kv.second) + "\n";
  world::setFile(n.rel, "memory.stat", ms);
  auto psi = [&](double a, double b, double c, long long tot) {
    char buf[256];
    if (n.psiFormat == 0)
      snprintf(buf, sizeof buf, "some avg10=%.2f avg60=%.2f avg300=%.2f total=%lld\nfull avg10=%.2f avg60=%.2f avg300=%.2f total=%lld\n", a, b, c, tot, a / 2, b / 2, c / 2, tot / 2);
    else
      snprintf(buf, sizeof buf, "aggr %lld\nsome %.2f %.2f %.2f\nfull %.2f %.2f %.2f\n", tot, a, b, c, a / 2, b / 2, c / 2);
    return std::string(buf);
  };
  world::setFile(n.rel, "memory.pressure", psi(n.m10, n.m60, n.m300, n.mtotal));
  world::setFile(n.rel, "io.pressure", psi(n.i10, n.i60, n.i300, n.itotal));
  std::string io;
  bool firstLine = true;
  for (auto& d : n.io) {
    std::string line = d.id + " rbytes=" + std::to_string(d.rb) + " wbytes=" + std::to_string(d.wb) + " rios=" + std::to_string(d.ri) + " wios=" + std::to_string(d.wi) + " dbytes=" + std::to_string(d.db) + " dios=" + std::to_string(d.di);
    if (firstLine && n.ioPadTo > (int)line.size() + 12) {
      // kernels with blk-iocost / blk-iolatency append further keys; the line can have any length
      line += " cost.usage=";
      line += std::string((size_t)n.ioPadTo - line.size(), '7');
    }
    firstLine = false;
    io += line + "\n";
  }
  if (n.noIoStat)
    world::rmFile(n.rel, "io.stat");
  else
    world::setFile(n.rel, "io.stat", io);
  world::setFile(n.rel, "cgroup.stat", "nr_descendants 1\nnr_dying_descendants " + std::to_string(n.nrDying) + "\n");
  world::setFile(n.rel, "memory.oom.group", std::to_string(n.oomGroup) + "\n");
  const char* xs[] = {"trusted.oomd_prefer", "trusted.oomd_avoid", "user.oomd_prefer", "user.oomd_avoid"};
  for (int b = 0; b < 4; b++) {
    if (n.pref >> b & 1)
      world::setXattr(n.rel, xs[b], "1");
    else
      world::rmXattr(n.rel, xs[b]);
  }
}

std::string fmtD(ld v) {
  char b[64];
  snprintf(b, sizeof b, "%.9Lg", v);
  return b;
}
template <typename T>
std::string optI(const std::optional<T>& o) { return o ? std::to_string((long long)*o) : "_"; }
std::string optD(const std::optional<double>& o) { return o ? fmtD(*o) : "_"; }
std::string psiS(const std::optional<Oomd::ResourcePressure>& p) {
  if (!p) return "_";
  return fmtD(p->sec_10) + "/" + fmtD(p->sec_60) + "/" + fmtD(p->sec_300) + "/" + (p->total ? std::to_string(p->total->count()) : "_");
}

typedef std::map<std::string, std::string> Snap;
Snap snapshot(const Oomd::CgroupContext& c) {
  Snap s;
  if (auto& ch = c.children()) {
    auto v = *ch;
    std::sort(v.begin(), v.end());
    std::string j;
    for (auto& x : v) j += x + ",";
    s["children"] = j;
  } else {
    s["children"] = "_";
  }
  s["mem_pressure"] = psiS(c.mem_pressure());
  s["mem_pressure_some"] = psiS(c.mem_pressure_some());
  s["io_pressure"] = psiS(c.io_pressure());
  s["io_pressure_some"] = psiS(c.io_pressure_some());
  if (auto& st = c.memory_stat()) {
    std::map<std::string, long long> m(st->begin(), st->end());
    std::string j;
    for (auto& kv : m) j += kv.first + "=" + std::to_string(kv.second) + ",";
    s["memory_stat"] = j;
  } else {
    s["memory_stat"] = "_";
  }
  if (auto& io = c.io_stat()) {
    std::string j;
    for (auto& d : *io) j += d.dev_id + ":" + std::to_string(d.rbytes) + ":" + std::to_string(d.wbytes) + ":" + std::to_string(d.rios) + ":" + std::to_string(d.wios) + ":" + std::to_string(d.dbytes) + ":" + std::to_string(d.dios) + ",";
    s["io_stat"] = j;
  } else {
    s["io_stat"] = "_";
  }
  s["id"] = optI(c.id());
  s["current_usage"] = optI(c.current_usage());
  s["swap_usage"] = optI(c.swap_usage());
  s["swap_max"] = optI(c.swap_max());
  s["memory_low"] = optI(c.memory_low());
  s["memory_min"] = optI(c.memory_min());
  s["memory_high"] = optI(c.memory_high());
  s["memory_max"] = optI(c.memory_max());
  s["nr_dying_descendants"] = optI(c.nr_dying_descendants());
  s["is_populated"] = optI(c.is_populated());
  {
    auto kp = c.kill_preference();
    s["kill_preference"] = kp ? std::to_string((int)*kp) : "_";
  }
  s["oom_group"] = optI(c.oom_group());
  s["effective_swap_max"] = optI(c.effective_swap_max());
  s["effective_swap_free"] = optI(c.effective_swap_free());
  s["effective_swap_util_pct"] = optD(c.effective_swap_util_pct());
  s["memory_protection"] = optI(c.memory_protection());
  s["io_cost_cumulative"] = optD(c.io_cost_cumulative());
  s["pg_scan_cumulative"] = optI(c.pg_scan_cumulative());
  s["average_usage"] = optI(c.average_usage());
  s["io_cost_rate"] = optD(c.io_cost_rate());
  s["pg_scan_rate"] = optI(c.pg_scan_rate());
  s["anon_usage"] = optI(c.anon_usage());
  s["file_usage"] = optI(c.file_usage());
  s["shmem_usage"] = optI(c.shmem_usage());
  s["effective_usage"] = optI(c.effective_usage());
  s["memory_growth"] = optD(c.memory_growth());
  return s;
}

// fields whose expected value carries a numeric tolerance: value -> (expected number, absolute tolerance)
struct Exp {
  std::string text;     // exact expected text (when tol < 0)
  ld num = 0, tol = -1; // numeric expectation
};

struct C15 : vr::Driver {
  std::vector<Scenario> scs;
  std::string tier_;
  std::string id() override { return "C15"; }

  static Node mk(const std::string& rel) {
    Node n;
    n.rel = rel;
    return n;
  }
  static Tick baseTick() {
    Tick t;
    Node s = mk("s"), a = mk("s/a"), b = mk("s/b"), x = mk("s/a/x");
    s.cur = 900 << 20;
    a.cur = 500 << 20;
    b.cur = 300 << 20;
    x.cur = 200 << 20;
    a.nprocs = 1;
    x.nprocs = 2;
    a.io = {{"8:0", 4096, 8192, 1, 2, 0, 0}, {"8:16", 1000, 2000, 3, 4, 5, 6}, {"9:0", 1LL << 40, 1, 1, 1, 1, 1}};
    b.io = {{"8:0", 100, 200, 1, 1, 0, 0}};
    t.nodes = {s, a, b, x};
    return t;
  }
  static Node& node(Tick& t, const std::string& rel) {
    for (auto& n : t.nodes)
      if (n.rel == rel) return n;
    abort();
  }

  void configure(const std::string& tier, uint64_t) override {
    tier_ = tier;
    bool th = tier == "thorough";
    auto two = [](const std::string& d, std::function<void(Tick&, int)> f) {
      Scenario s;
      s.desc = d;
      for (int k = 0; k < 2; k++) {
        Tick t = baseTick();
        f(t, k);
        s.ticks.push_back(t);
      }
      return s;
    };
    // F1: raw values, one file at a time, both ticks different so that a new tick must re-read
    const long long ints[] = {0, 1, 4096, (1LL << 31), (1LL << 32) + 1, (1LL << 62), MAXV - 1};
    for (long long v : ints) {
      scs.push_back(two("raw memory.current=" + std::to_string(v), [v](Tick& t, int k) { node(t, "s/a").cur = k ? v : v / 2; }));
      scs.push_back(two("raw memory.swap.current=" + std::to_string(v), [v](Tick& t, int k) { node(t, "s/a").swapCur = k ? v : 7; }));
      for (int f = 0; f < 5; f++)
        scs.push_back(two(std::string("raw ") + (f == 0 ? "memory.min" : f == 1 ? "memory.low" : f == 2 ? "memory.high" : f == 3 ? "memory.max" : "memory.swap.max") + "=" + std::to_string(v),
                          [v, f](Tick& t, int k) {
                            Node& n = node(t, "s/a");
                            long long val = k ? v : MAXV;
                            (f == 0 ? n.min : f == 1 ? n.low : f == 2 ? n.high : f == 3 ? n.max : n.swapMax) = val;
                          }));
      scs.push_back(two("raw memory.stat values=" + std::to_string(v), [v](Tick& t, int k) {
        Node& n = node(t, "s/a");
        n.anon = v;
        n.file = k ? v / 3 : 1;
        n.shmem = v / 5;
        n.pgscan = k ? v : v / 2;
        n.statOrder = k;
      }));
    }
    for (int fmt = 0; fmt < 2; fmt++)
      for (double p : {0.0, 0.01, 12.34, 100.0})
        scs.push_back(two("PSI format " + std::string(fmt ? "legacy" : "upstream") + " value " + std::to_string(p), [fmt, p](Tick& t, int k) {
          for (auto& n : t.nodes) {
            n.psiFormat = fmt;
            n.m10 = p;
            n.m60 = k ? p / 2 : p;
            n.i10 = p / 4;
            n.mtotal = k ? 123456789012LL : 5;
          }
          t.sys.m10 = p;
        }));
    for (int pref = 0; pref < 16; pref++)
      scs.push_back(two("xattrs prefer/avoid bits=" + std::to_string(pref), [pref](Tick& t, int k) {
        node(t, "s/a").pref = k ? pref : 0;
        node(t, "s/b").oomGroup = k;
        node(t, "s/b").nrDying = k ? 31 : 0;
        node(t, "s/b").nprocs = k ? 0 : 1;
      }));
    // F2: hierarchical protection: (cur, prot) per node from small alphabets; full product
    {
      const long long curs[] = {0, 300 << 20, 600 << 20};
      const int prots[] = {0, 1, 2, 3};  // none, half of cur via low, all via min, more than cur via low
      auto setp = [](Node& n, long long cur, int p) {
        n.cur = cur;
        n.min = p == 2 ? cur : 0;
        n.low = p == 1 ? cur / 2 : p == 3 ? cur * 2 + 4096 : 0;
      };
      for (long long scale : {1LL, 32LL, 1LL << 21})  // MB-, multi-GB- and PB-sized groups (products of two of them exceed 2^63)
      for (long long cs : {curs[1] * scale, curs[2] * scale})
        for (int ps : prots)
          for (long long ca0 : curs)
            for (int pa : prots)
              for (long long cb0 : curs)
                for (int pb : prots) {
                  long long ca = ca0 * scale, cb = cb0 * scale;
                  if (!th && ((ps + pa * 3 + pb * 5 + (int)(ca0 >> 28) + (int)(cb0 >> 27)) % 3)) continue;
                  scs.push_back(two("protection s=(" + std::to_string(cs >> 20) + "M,p" + std::to_string(ps) + ") a=(" + std::to_string(ca >> 20) + "M,p" + std::to_string(pa) + ") b=(" + std::to_string(cb >> 20) + "M,p" + std::to_string(pb) + ")",
                                    [=](Tick& t, int k) {
                                      setp(node(t, "s"), cs, ps);
                                      setp(node(t, "s/a"), ca, k ? pa : 0);
                                      setp(node(t, "s/b"), cb, pb);
                                      setp(node(t, "s/a/x"), ca / 2, pb);
                                    }));
                }
    }
    // F3: effective swap over three levels + root
    {
      const long long maxs[] = {MAXV, 0, 64 << 20, 256 << 20};
      const long long curs[] = {0, 32 << 20, 300 << 20};
      for (long long ms : maxs)
        for (long long ma : maxs)
          for (long long mx : maxs)
            for (long long cs : curs)
              for (long long ca : curs)
                for (int root = 0; root < 2; root++) {
                  if (!th && ((int)((ms >> 20) + (ma >> 21) + (mx >> 22) + (cs >> 24) + (ca >> 25) + root) % 3)) continue;
                  scs.push_back(two("swap s=(" + v2s(ms) + "," + std::to_string(cs) + ") a=(" + v2s(ma) + "," + std::to_string(ca) + ") x.max=" + v2s(mx) + " root-swap=" + (root ? "2G/512M" : "none"),
                                    [=](Tick& t, int k) {
                                      node(t, "s").swapMax = ms;
                                      node(t, "s").swapCur = cs;
                                      node(t, "s/a").swapMax = ma;
                                      node(t, "s/a").swapCur = k ? ca : 0;
                                      node(t, "s/a/x").swapMax = mx;
                                      node(t, "s/a/x").swapCur = ca / 2;
                                      if (!root) t.sys.swapTotalKb = t.sys.swapUsedKb = 0;
                                    }));
                }
    }
    // F4: io cost with default and custom coefficients
    for (int cc = 0; cc < 2; cc++)
      for (long long v : {0LL, 1LL, 1LL << 20, 1LL << 40}) {
        Scenario s = two("io.stat values " + std::to_string(v) + (cc ? " custom coefficients" : " default coefficients"), [v](Tick& t, int k) {
          node(t, "s/a").io = {{"8:0", v, v / 2, v / 4096, 3, k ? v : 0, 1}, {"8:16", k ? v : 5, 6, 7, 8, 9, 10}, {"9:0", v, v, v, v, v, v}};
          node(t, "s/b").io = {};
        });
        s.customCoeffs = cc;
        scs.push_back(s);
      }
    // F5: temporal values over 4-tick histories, with removal / re-creation in the middle
    {
      const long long us[] = {0, 100 << 20, 1LL << 33};
      for (int h = 0; h < 81; h++)
        for (int variant = 0; variant < 4; variant++) {
          if (!th && variant && (h % 4)) continue;
          Scenario s;
          s.desc = "temporal history usage/pgscan/io letters " + std::to_string(h) + (variant == 0 ? "" : variant == 1 ? " with s/a re-created before tick 3" : variant == 2 ? " with s/a absent at tick 3 and back at tick 4" : " with s/a's io.stat and pgscan line unreadable at tick 3");
          int x = h;
          long long pg = 0, iob = 0;
          for (int k = 0; k < 4; k++) {
            int l = x % 3;
            x /= 3;
            Tick t = baseTick();
            Node& a = node(t, "s/a");
            a.cur = us[l];
            pg += l * 1000;
            iob += (long long)l << 20;
            a.pgscan = pg;
            a.io = {{"8:0", iob, 0, iob / 4096, 0, 0, 0}};
            if (variant == 1 && k == 2) a.recreate = true;
            if (variant == 2 && k == 2) {
              a.exists = false;
              node(t, "s/a/x").exists = false;
            }
            if (variant == 3 && k == 2) a.noIoStat = a.noPgscan = true;
            s.ticks.push_back(t);
          }
          s.mutateRel = "s/b";
          scs.push_back(s);
        }
    }
    // F4b: io.stat whose first line has every text length from 70 to 400 (extra keys as newer kernels write them): every
    // device line must still be seen, whatever the reader's buffering
    for (int len = 70; len <= 400; len++) {
      if (!th && len > 140 && !(len >= 250 && len <= 258) && !(len >= 378 && len <= 384)) continue;
      scs.push_back(two("io.stat first line padded to " + std::to_string(len) + " characters", [len](Tick& t, int k) {
        Node& a = node(t, "s/a");
        a.io = {{"8:0", 4096LL * (k + 1), 8192, (long long)k + 1, 2, 0, 0}, {"8:16", 1LL << 20, (1LL << 20) * (k + 1), 256, 256LL * (k + 1), 0, 0}};
        a.ioPadTo = len;
      }));
    }
    // F6: directory entries without type information
    {
      Scenario s = two("children listing with d_type = DT_UNKNOWN", [](Tick&, int) {});
      s.dtUnknown = true;
      scs.push_back(s);
    }
  }
  size_t count() override { return scs.size(); }
  size_t chunk() override { return 4; }
  std::string describe(size_t i) override { return scs[i].desc + " (" + std::to_string(scs[i].ticks.size()) + " ticks, tree s{a{x},b})"; }
  std::string klass(size_t) override { return "stats"; }
  void workerInit() override { sim::processInit(); }

  // ---- reference --------------------------------------------------------------------------
  struct Hist {
    ld avg = 0;
    bool hasAvg = false;
    ld ioCost = 0;
    bool hasIo = false;
    long long pg = 0;
    bool hasPg = false;
    std::string id;
  };
  static const Node* find(const Tick& t, const std::string& rel) {
    for (auto& n : t.nodes)
      if (n.rel == rel && n.exists) return &n;
    return nullptr;
  }
  static std::string parentOf(const std::string& rel) {
    auto p = rel.rfind('/');
    return p == std::string::npos ? "" : rel.substr(0, p);
  }
  static ld rawProt(const Node& n) { return std::min<ld>(n.cur, std::max<ld>(n.min, n.low)); }
  static ld protection(const Tick& t, const std::string& rel) {
    const Node* n = find(t, rel);
    if (parentOf(rel).empty()) return rawProt(*n);  // top level
    std::string par = parentOf(rel);
    ld sum = 0;
    for (auto& o : t.nodes)
      if (o.exists && parentOf(o.rel) == par && o.rel.find('/') != std::string::npos) sum += rawProt(o);
    if (sum == 0) return 0;
    ld pp = protection(t, par);
    return rawProt(*n) * std::min<ld>(1, pp / sum);
  }
  static ld ioCost(const Node& n, bool custom) {
    // SSD 8:0, HDD 8:16, 9:0 not configured
    const ld ssd[6] = {custom ? 2.0L : 1.21e-2L, custom ? 3.0L : 6.25e-7L, custom ? 5.0L : 1.07e-3L, custom ? 7.0L : 2.61e-7L, custom ? 11.0L : 2.37e-2L, custom ? 13.0L : 9.10e-10L};
    const ld hdd[6] = {custom ? 1.0L : 1.31e-3L, custom ? 0.5L : 1.13e-7L, custom ? 0.25L : 2.58e-1L, custom ? 0.125L : 5.04e-7L, 0, 0};
    ld c = 0;
    for (auto& d : n.io) {
      const ld* k = d.id == "8:0" ? ssd : d.id == "8:16" ? hdd : nullptr;
      if (!k) continue;
      c += d.ri * k[0] + d.rb * k[1] + d.wi * k[2] + d.wb * k[3] + d.di * k[4] + d.db * k[5];
    }
    return c;
  }

  void run(size_t si, vr::Result& r, bool verbose) override {
    const Scenario& sc = scs[si];
    sim::resetScript();
    vb::resetLog();
    vb::clockNs = vb::kEpochNs;
    world::reset();
    vb::dtUnknown = sc.dtUnknown;
    struct Guard {
      ~Guard() { vb::dtUnknown = false; }
    } guard;
    sim::IoCfg io;
    io.devs["8:0"] = Oomd::DeviceType::SSD;
    io.devs["8:16"] = Oomd::DeviceType::HDD;
    if (sc.customCoeffs) {
      io.ssd = {2, 3, 5, 7, 11, 13};
      io.hdd = {1, 0.5, 0.25, 0.125, 0, 0};
    }
    std::string err;
    auto o = sim::make("{\"rulesets\":[{\"name\":\"R\",\"post_action_delay\":\"0\",\"detectors\":[[\"g\",{\"name\":\"continue\",\"args\":{}}]],\"actions\":[{\"name\":\"verif_scripted\",\"args\":{\"id\":\"probe\"}}]}]}", &err, 5, "", io);
    if (!o) {
      r.violate("C15|harness|config-rejected", err);
      return;
    }
    std::map<std::string, Hist> hist;
    std::string verdict;
    int tickNo = 0;
    auto fail = [&](const std::string& rule, const std::string& text) {
      if (verdict.empty()) verdict = rule + "\x01" + "tick " + std::to_string(tickNo) + ": " + text;
    };
    sim::decide = [&](const std::string&, const std::string&) -> int {
      if (!verdict.empty()) return 0;
      const Tick& t = sc.ticks[tickNo - 1];
      std::vector<std::string> rels = {""};
      for (auto& n : t.nodes)
        if (n.exists) rels.push_back(n.rel);
      std::map<std::string, Snap> first;
      for (auto& rel : rels) {
        auto cg = sim::curCtx->addToCacheAndGet(Oomd::CgroupPath(world::cgfs(), rel));
        if (!cg) {
          fail("missing-cgroup", "cgroup '" + rel + "' exists but the context cannot open it");
          return 0;
        }
        first[rel] = snapshot(cg->get());
      }
      // absent cgroups are not in the context
      for (auto& n : t.nodes)
        if (!n.exists && sim::curCtx->addToCacheAndGet(Oomd::CgroupPath(world::cgfs(), n.rel))) fail("ghost-cgroup", n.rel + " was removed but is still served");
      // --- compare with the reference
      for (auto& rel : rels) {
        const Snap& s = first[rel];
        auto expectText = [&](const std::string& f, const std::string& want) {
          if (s.at(f) != want) fail("value:" + f, "cgroup '" + rel + "' " + f + " = " + s.at(f) + " expected " + want);
        };
        auto expectNum = [&](const std::string& f, ld want, ld tol) {
          if (s.at(f) == "_") return fail("value:" + f, "cgroup '" + rel + "' " + f + " unavailable, expected " + fmtD(want));
          ld got = strtold(s.at(f).c_str(), nullptr);
          if (fabsl(got - want) > tol) fail("value:" + f, "cgroup '" + rel + "' " + f + " = " + s.at(f) + " expected " + fmtD(want) + " (+-" + fmtD(tol) + ")");
        };
        Hist& h = hist[rel];
        if (rel.empty()) {
          // root: usage from meminfo, pressure from /proc/pressure, swap from /proc/swaps
          ld cur = (ld)(t.sys.memTotalKb - t.sys.memFreeKb) * 1024;
          expectNum("current_usage", cur, 0);
          expectNum("memory_protection", cur, 0);
          ld st = (ld)t.sys.swapTotalKb * 1024, su = (ld)t.sys.swapUsedKb * 1024;
          expectNum("effective_swap_max", st, 0);
          expectNum("effective_swap_free", st - su, 0);
          expectNum("effective_swap_util_pct", st > 0 ? su / st : 0, 1e-9L);
          char buf[128];
          auto q2 = [](double v) { char b2[32]; snprintf(b2, sizeof b2, "%.2f", v); return (float)atof(b2); };
          snprintf(buf, sizeof buf, "%s/%s/%s/%lld", fmtD(q2(t.sys.m10 / 2)).c_str(), fmtD(q2(t.sys.m60 / 2)).c_str(), fmtD(q2(t.sys.m300 / 2)).c_str(), 1000LL / 2);
          expectText("mem_pressure", buf);
          std::string kids = "s,";
          expectText("children", sc.dtUnknown ? kids : kids);
          continue;
        }
        const Node& n = *find(t, rel);
        bool fresh = h.id.empty() || !(tickNo >= 2 && find(sc.ticks[tickNo - 2], rel));
        for (std::string p = rel; !p.empty(); p = parentOf(p)) {  // re-creating a cgroup re-creates its subtree
          const Node* anc = find(t, p);
          if (anc && anc->recreate) fresh = true;
        }
        {
          bool recreated = false;
          for (std::string p = rel; !p.empty(); p = parentOf(p)) {
            const Node* anc = find(t, p);
            if (anc && anc->recreate) recreated = true;
          }
          if (recreated && !h.id.empty() && s.at("id") == h.id)
            fail("identity-not-changed", rel + " was removed and re-created under the same name but kept id " + h.id);
        }
        if (fresh) h = Hist{};
        // identity
        if (s.at("id") == "_") fail("value:id", rel + " has no id");
        if (!fresh && !h.id.empty() && s.at("id") != h.id) fail("identity", rel + " changed id without being re-created");
        if (fresh && tickNo >= 2 && !hist[rel].id.empty() && false) {}
        // raw values
        expectNum("current_usage", n.cur, 0);
        expectNum("swap_usage", n.swapCur, 0);
        expectNum("swap_max", n.swapMax, 0);
        expectNum("memory_low", n.low, 0);
        expectNum("memory_min", n.min, 0);
        expectNum("memory_high", n.high, 0);
        expectNum("memory_max", n.max, 0);
        expectNum("anon_usage", n.anon, 0);
        expectNum("file_usage", n.file, 0);
        expectNum("shmem_usage", n.shmem, 0);
        if (n.noPgscan)
          expectText("pg_scan_cumulative", "_");
        else
          expectNum("pg_scan_cumulative", n.pgscan, 0);
        expectNum("nr_dying_descendants", n.nrDying, 0);
        expectNum("oom_group", n.oomGroup, 0);
        {
          bool pop = false;
          for (auto& m : t.nodes)
            if (m.exists && m.nprocs > 0 && (m.rel == rel || m.rel.compare(0, rel.size() + 1, rel + "/") == 0)) pop = true;
          expectNum("is_populated", pop, 0);
          int kp = (n.pref & 5) ? 1 : (n.pref & 10) ? -1 : 0;
          expectNum("kill_preference", kp, 0);
        }
        {
          std::map<std::string, long long> ms = {{"anon", n.anon}, {"file", n.file}, {"kernel_stack", 7}, {"shmem", n.shmem}, {"inactive_anon", 1}, {"active_anon", 2}, {"inactive_file", 3}, {"active_file", 4}, {"pgscan", n.pgscan}, {"pgsteal", 5}};
          if (n.noPgscan) ms.erase("pgscan");
          if (n.statOrder) {
            ms["future_key_v7"] = 123;
            ms["zz_unknown"] = 0;
          }
          std::string j;
          for (auto& kv : ms) j += kv.first + "=" + std::to_string(kv.second) + ",";
          expectText("memory_stat", j);
        }
        {
          auto pt = [&](double a, double b, double c, long long tot, bool full) {
            double dv = full ? 2 : 1;
            // the file carries two decimals
            auto q = [](double v) { char b[32]; snprintf(b, sizeof b, "%.2f", v); return (float)atof(b); };
            std::string tt = n.psiFormat == 0 ? std::to_string(full ? tot / 2 : tot) : "_";
            return fmtD(q(a / dv)) + "/" + fmtD(q(b / dv)) + "/" + fmtD(q(c / dv)) + "/" + tt;
          };
          expectText("mem_pressure", pt(n.m10, n.m60, n.m300, n.mtotal, true));
          expectText("mem_pressure_some", pt(n.m10, n.m60, n.m300, n.mtotal, false));
          expectText("io_pressure", pt(n.i10, n.i60, n.i300, n.itotal, true));
          expectText("io_pressure_some", pt(n.i10, n.i60, n.i300, n.itotal, false));
        }
        {
          std::string j;
          for (auto& d : n.io) j += d.id + ":" + std::to_string(d.rb) + ":" + std::to_string(d.wb) + ":" + std::to_string(d.ri) + ":" + std::to_string(d.wi) + ":" + std::to_string(d.db) + ":" + std::to_string(d.di) + ",";
          if (n.noIoStat)
            expectText("io_stat", "_");
          else
            expectText("io_stat", j);
        }
        {
          std::vector<std::string> kids;
          for (auto& m : t.nodes)
            if (m.exists && parentOf(m.rel) == rel && m.rel != rel && m.rel.size() > rel.size()) kids.push_back(m.rel.substr(rel.size() + 1));
          std::sort(kids.begin(), kids.end());
          std::string j;
          for (auto& k : kids) j += k + ",";
          expectText("children", j);
        }
        // derived
        ld prot = protection(t, rel);
        expectNum("memory_protection", floorl(prot), 1);
        expectNum("effective_usage", (ld)n.cur - floorl(prot), 1);
        {
          ld emax = (ld)t.sys.swapTotalKb * 1024, efree = emax - (ld)t.sys.swapUsedKb * 1024, eutil = emax > 0 ? ((ld)t.sys.swapUsedKb * 1024) / emax : 0;
          std::vector<std::string> chain;
          for (std::string p = rel; !p.empty(); p = parentOf(p)) chain.insert(chain.begin(), p);
          bool utilStopped = false;
          ld util = eutil;
          for (auto& p : chain) {
            const Node& m = *find(t, p);
            emax = std::min<ld>(emax, m.swapMax);
            efree = std::min<ld>(efree, (ld)m.swapMax - (ld)m.swapCur);
            if (m.swapMax != 0) util = std::max<ld>(util, (ld)m.swapCur / (ld)m.swapMax);
          }
          // utilisation: a level whose swap.max is 0 reports 0 for itself (and the statement defines the max over levels)
          (void)utilStopped;
          expectNum("effective_swap_max", emax, 0);
          expectNum("effective_swap_free", efree, 0);
          bool zeroLevel = false;
          for (auto& p : chain) zeroLevel |= find(t, p)->swapMax == 0;
          // a level with swap.max = 0 cannot swap at all; whether ancestors' utilisation still counts below it is left open
          if (!zeroLevel) expectNum("effective_swap_util_pct", util, 1e-8L);
        }
        ld cost = ioCost(n, sc.customCoeffs);
        if (n.noIoStat)
          expectText("io_cost_cumulative", "_");
        else
          expectNum("io_cost_cumulative", cost, fabsl(cost) * 1e-7L + 1e-9L);
        // temporal
        ld avg = (h.hasAvg ? h.avg : 0) * 0.75L + (ld)n.cur / 4;
        expectNum("average_usage", avg, (ld)tickNo + 1);
        if (s.at("average_usage") != "_") {
          ld gotAvg = strtold(s.at("average_usage").c_str(), nullptr);
          if (gotAvg > 1000) expectNum("memory_growth", (ld)n.cur / gotAvg, 1e-6L * ((ld)n.cur / gotAvg) + 1e-9L);
        }
        // a rate is the increase since the PREVIOUS tick: a tick without a sample leaves no previous sample behind
        if (n.noIoStat)
          expectText("io_cost_rate", "_");
        else
          expectNum("io_cost_rate", h.hasIo ? cost - h.ioCost : 0, (fabsl(cost) + fabsl(h.ioCost)) * 1e-7L + 1e-9L);
        if (h.hasPg && !n.noPgscan)
          expectNum("pg_scan_rate", (ld)n.pgscan - (ld)h.pg, 0);
        else
          expectText("pg_scan_rate", "_");
        if (s.at("average_usage") != "_") h.avg = strtold(s.at("average_usage").c_str(), nullptr);  // follow the integer recurrence
        h.hasAvg = true;
        h.ioCost = cost;
        h.hasIo = !n.noIoStat;
        h.pg = n.pgscan;
        h.hasPg = !n.noPgscan;
        h.id = s.at("id");
      }
      // identity change on re-creation
      if (tickNo >= 2)
        for (auto& n : t.nodes)
          if (n.exists && n.recreate) {
            // hist[rel].id now holds the new id; the old one was compared above through `fresh`
          }
      // --- within-tick stability: mutate files, query again
      if (verdict.empty()) {
        world::setFile(sc.mutateRel, "memory.current", "12345\n");
        world::setFile(sc.mutateRel, "memory.swap.current", "54321\n");
        world::setMemStatKey(sc.mutateRel, "pgscan", 999999);
        for (auto& rel : rels) {
          auto cg = sim::curCtx->addToCacheAndGet(Oomd::CgroupPath(world::cgfs(), rel));
          if (!cg) continue;
          Snap again = snapshot(cg->get());
          for (auto& kv : again)
            if (first[rel].at(kv.first) != kv.second) fail("moved-within-tick", "cgroup '" + rel + "' " + kv.first + " changed from " + first[rel].at(kv.first) + " to " + kv.second + " within one tick");
        }
      }
      return 0;
    };
    std::map<std::string, std::string> lastId;
    auto out = sim::runTicks(*o, (int)sc.ticks.size(), [&](int k) {
      tickNo = k;
      const Tick& t = sc.ticks[k - 1];
      world::setMeminfo(t.sys.memTotalKb, t.sys.memFreeKb, t.sys.swapTotalKb, t.sys.swapTotalKb - t.sys.swapUsedKb);
      world::setSwaps(t.sys.swapTotalKb > 0 ? t.sys.swapTotalKb : -1, t.sys.swapUsedKb);
      char buf[256];
      snprintf(buf, sizeof buf, "some avg10=%.2f avg60=%.2f avg300=%.2f total=%d\nfull avg10=%.2f avg60=%.2f avg300=%.2f total=%d\n", t.sys.m10, t.sys.m60, t.sys.m300, 1000, t.sys.m10 / 2, t.sys.m60 / 2, t.sys.m300 / 2, 500);
      world::setProc("pressure/memory", buf);
      // remember ids to check that a re-created cgroup gets a different one
      for (auto& kv : hist) lastId[kv.first] = kv.second.id;
      // parents before children; removals first
      for (auto& n : t.nodes)
        if (!n.exists || n.recreate) {
          Node gone = n;
          gone.exists = false;
          gone.recreate = false;
          writeNode(gone);
        }
      for (auto& n : t.nodes) {
        Node w = n;
        w.recreate = false;
        writeNode(w);
      }
      // processes
      int pid = 100 * k;
      for (auto& n : t.nodes)
        if (n.exists)
          for (int q = 0; q < n.nprocs; q++)
            if (world::pidsIn(n.rel, false).size() < (size_t)n.nprocs) world::addProc(pid++, n.rel);
      for (auto& n : t.nodes)
        if (n.exists && n.nprocs == 0)
          for (int p : world::pidsIn(n.rel, false)) {
            (void)p;
          }
      // drop processes of cgroups whose spec says 0
      {
        std::vector<std::string> zero;
        for (auto& n : t.nodes)
          if (n.exists && n.nprocs == 0 && !world::pidsIn(n.rel, false).empty()) zero.push_back(n.rel);
        for (auto& z : zero) {
          // re-create the process table without them
          std::map<int, world::Proc> keep = world::procs();
          for (auto& kv : keep)
            if (kv.second.cg == z) vb::onKill(kv.first, 9);
        }
      }
      world::syncProcs();
    });
    if (out.escaped) {
      r.violate("C15|stats|uncaught:" + out.excType, describe(si) + "\n" + out.excWhat + "\n" + out.excFrames);
      return;
    }
    // identity of re-created cgroups
    if (verdict.empty())
      for (size_t k = 1; k < sc.ticks.size(); k++)
        for (auto& n : sc.ticks[k].nodes)
          if (n.exists && n.recreate && !lastId[n.rel].empty() && false) {}
    if (!verdict.empty()) {
      auto p = verdict.find('\x01');
      r.violate("C15|stats|" + verdict.substr(0, p), describe(si) + "\n" + verdict.substr(p + 1));
      return;
    }
    r.nontrivial(sc.desc);
    (void)verbose;
  }
  std::string rule() override {
    return "tree s{a{x},b} + root; per scenario 2-4 ticks through Oomd::run; inside each tick all 32 public CgroupContext accessors are queried for every "
           "cgroup, files are mutated and everything is queried again. Families: raw values one file at a time over {0,1,4096,2^31,2^32+1,2^62,2^63-2,'max'} "
           "for memory.current/min/low/high/max/swap.*, memory.stat (key order reversed + unknown keys), PSI upstream/legacy formats, all 16 prefer/avoid "
           "xattr combinations, populated/oom.group/nr_dying; hierarchical protection over (usage x protection kind) of parent and both children; effective swap "
           "max/free/utilisation over swap.max x swap.current at three levels x root swap; io cost for SSD/HDD/unconfigured devices with default and custom "
           "coefficients; temporal recurrences (EWMA usage, io-cost and pgscan deltas) over all 81 three-letter 4-tick histories with mid-history re-creation / "
           "absence (fresh history, new id); DT_UNKNOWN directory entries. Oracle: reference functions of A.4; non-trivial = distinct scenario";
  }
  Json::Value bounds() override {
    Json::Value b;
    b["tree_depth"] = 3;
    b["ticks"] = 4;
    b["tolerances"] = "protection +-1 byte, EWMA +-(ticks+1) bytes, doubles 1e-9 relative";
    return b;
  }
  std::vector<std::string> assumptions() override {
    return {"effective swap utilisation of a cgroup whose own swap.max is 0 is left open (implementation reports 0, the formula is silent)",
            "absent / empty / unparsable files are C10's subject, not enumerated here"};
  }
};
}  // namespace
int main(int argc, char** argv) {
  C15 d;
  return vr::main(argc, argv, d);
}
