// C18 - Senpai throttling stays within its floor/ceiling and respects its guards.  The real
// `senpai` plugin runs as an action under an always-firing ruleset over the simulated cgroupfs;
// every write it makes arrives at the interposed write(2).  Scenarios: world axes (usage, file/anon
// split, memory.min/high/max, swap limits and usage up the hierarchy, root swap, swappiness),
// every senpai argument at default/low/high, both modes, with/without memory.reclaim and
// memory.high.tmp, PSI histories, and the target vanishing / being re-created / having its limit
// changed by a third party.  Oracle: monitor over the write log + reference floor/ceiling/guards.
#include <cmath>
#include <set>

#include "common/boundary.h"
#include "common/runner.h"
#include "common/sim.h"
#include "common/world.h"

namespace {
typedef long double ld;
const long long MB = 1LL << 20, GB = 1LL << 30, MAXV = 9223372036854775807LL;

struct Spec {
  // world
  long long shmem = 0;  // tmpfs / shared memory: counted under memory.stat `file`, but it lives on the anon LRU (reclaimable through swap only)
  long long usage = 2 * GB, fileCache = 1 * GB, anon = 900 * MB, memMin = 0, memHigh = MAXV, memMax = MAXV;
  long long swapMaxA = MAXV, swapCurA = 0, swapMaxT = MAXV, swapCurT = 0;
  long long rootSwapTotalKb = 2097152, rootSwapUsedKb = 524288;
  int swappiness = 60;
  bool hasReclaim = false, hasHighTmp = false;
  double memSome = 0.0, ioSome = 0.0;  // some avg10/avg60 (immediate mode guards)
  int psiPattern = 0;                  // per-tick growth of `some total` (us): 0 none, 1 below target, 2 above, 3 10x, 4 alternating, 5 ramp
  int envEvent = 0;                    // 0 none, 1 target removed at tick 4, 2 re-created at tick 4, 3 third party sets memory.high at tick 4, 4 usage grows at tick 3
  bool twoTargets = false;
  bool failReclaim = false;            // opening memory.reclaim for the probe fails with EAGAIN (the kernel may refuse a reclaim request)
  // senpai args (empty = default)
  std::map<std::string, std::string> args;
  int ticks = 8;
  std::string describe() const {
    std::ostringstream o;
    o << "usage=" << usage << " file=" << fileCache << " anon=" << anon << " min=" << memMin << " high=" << (memHigh == MAXV ? -1 : memHigh) << " max=" << (memMax == MAXV ? -1 : memMax)
      << " swapA=(" << (swapMaxA == MAXV ? -1 : swapMaxA) << "," << swapCurA << ") swapT=(" << (swapMaxT == MAXV ? -1 : swapMaxT) << "," << swapCurT << ") rootswap=(" << rootSwapTotalKb << "k," << rootSwapUsedKb
      << "k) swappiness=" << swappiness << " reclaimfile=" << hasReclaim << " hightmp=" << hasHighTmp << " some=(" << memSome << "," << ioSome << ") psi=" << psiPattern << " env=" << envEvent
      << (shmem ? " shmem=" + std::to_string(shmem) : std::string()) << " targets=" << (twoTargets ? "t/*" : "t/a") << (failReclaim ? " memory.reclaim-write-fails" : "") << " args{";
    for (auto& kv : args) o << kv.first << "=" << kv.second << " ";
    o << "}";
    return o.str();
  }
};

long long psiDelta(int pattern, int tick) {
  switch (pattern) {
    case 0: return 0;
    case 1: return 5000;
    case 2: return 20000;
    case 3: return 200000;
    case 4: return tick % 2 ? 30000 : 0;
    case 5: return 4000LL * tick;
  }
  return 0;
}

struct C18 : vr::Driver {
  std::vector<Spec> specs;
  std::string tier_;
  std::string id() override { return "C18"; }
  void configure(const std::string& tier, uint64_t) override {
    tier_ = tier;
    bool th = tier == "thorough";
    auto base = [](bool immediate) {
      Spec s;
      s.args["interval"] = "1";
      if (immediate) s.args["immediate_backoff"] = "true";
      return s;
    };
    for (int imm = 0; imm < 2; imm++) {
      // A. one senpai argument at a time (default / low / high) x PSI pattern
      const std::vector<std::pair<const char*, std::vector<const char*>>> argAxis = {
          {"limit_min_bytes", {"0", "1073741824", "3221225472"}}, {"limit_max_bytes", {"1048576", "1073741824"}}, {"interval", {"2", "6"}},
          {"pressure_ms", {"1", "100"}},                         {"max_probe", {"0.5", "0.001"}},             {"max_backoff", {"0.1", "2"}},
          {"coeff_probe", {"1", "100"}},                         {"coeff_backoff", {"1", "100"}},             {"pressure_pct", {"0.01", "5"}},
          {"io_pressure_pct", {"0.01", "5"}},                    {"swap_threshold", {"0.1", "0.99"}},         {"swap_validation", {"true"}},
          {"modulate_swappiness", {"true"}},                     {"swapout_bps_threshold", {"1"}},            {"log_interval", {"1"}}};
      for (int psi = 0; psi < 6; psi++) {
        specs.push_back([&] {
          Spec s = base(imm);
          s.psiPattern = psi;
          return s;
        }());
        for (auto& ax : argAxis)
          for (auto v : ax.second) {
            if (!th && psi >= 3 && std::string(ax.first) != "swap_validation" && std::string(ax.first) != "limit_min_bytes") continue;
            Spec s = base(imm);
            s.psiPattern = psi;
            s.args[ax.first] = v;
            if (std::string(ax.first) == "swap_validation" || std::string(ax.first) == "modulate_swappiness") {
              for (long long used : {524288LL, 1992294LL}) {  // 25 % and 95 % of root swap in use
                Spec s2 = s;
                s2.rootSwapUsedKb = used;
                specs.push_back(s2);
              }
              continue;
            }
            specs.push_back(s);
          }
      }
      // B. world axes: full product of the inputs of floor / ceiling / guards
      for (long long usage : {200 * MB, 2 * GB})
        for (int split = 0; split < 3; split++)
          for (long long mn : {0LL, 150 * MB})
            for (long long hi : {MAXV, 1 * GB})
              for (long long mx : {MAXV, 3 * GB / 2})
                for (int sw = 0; sw < 3; sw++)
                  for (int rs = 0; rs < 3; rs++)
                    for (int sp : {60, 0})
                      for (int files = 0; files < 3; files++) {
                        if (!th && ((split + sw * 2 + rs * 3 + (sp ? 1 : 0) + files + (mn ? 1 : 0) + (hi == MAXV ? 0 : 2) + (mx == MAXV ? 0 : 3) + (usage > GB ? 1 : 0)) % 4)) continue;
                        Spec s = base(imm);
                        s.usage = usage;
                        s.fileCache = split == 0 ? 0 : split == 1 ? usage / 2 : usage / 10 * 9;
                        s.anon = usage - s.fileCache - usage / 20;
                        s.memMin = mn;
                        s.memHigh = hi;
                        s.memMax = mx;
                        if (sw == 1) {
                          s.swapMaxA = 100 * MB;
                          s.swapCurA = 90 * MB;
                        }
                        if (sw == 2) {
                          s.swapMaxT = 64 * MB;
                          s.swapCurT = 8 * MB;
                        }
                        if (rs == 0) s.rootSwapTotalKb = s.rootSwapUsedKb = 0;
                        if (rs == 2) s.rootSwapUsedKb = 1992294;
                        s.swappiness = sp;
                        s.hasReclaim = files == 1;
                        s.hasHighTmp = files == 2;
                        s.psiPattern = (split + sw + rs) % 3;
                        if (imm) s.args["swap_validation"] = (rs + sw) % 2 ? "true" : "false";
                        specs.push_back(s);
                      }
      // C. guards of the immediate mode: pressures around their targets
      if (imm)
        for (double ms : {0.0, 0.05, 0.1, 0.2})
          for (double is : {0.0, 0.05, 0.2})
            for (int files = 0; files < 3; files++)
              for (int tg = 0; tg < 3; tg++) {  // targets: defaults (0.1 / 0.1), stricter io target, stricter memory target
                Spec s = base(true);
                s.memSome = ms;
                s.ioSome = is;
                s.hasReclaim = files == 1;
                s.hasHighTmp = files == 2;
                if (tg == 1) s.args["io_pressure_pct"] = "0.03";
                if (tg == 2) s.args["pressure_pct"] = "0.03";
                specs.push_back(s);
              }
      // C2. swappiness modulation, also when the reclaim request itself fails
      if (imm)
        for (int fr = 0; fr < 2; fr++)
          for (long long used : {524288LL, 1992294LL})
            for (int psi : {0, 1}) {
              Spec s = base(true);
              s.args["modulate_swappiness"] = "true";
              s.hasReclaim = true;
              s.failReclaim = fr;
              s.rootSwapUsedKb = used;
              s.psiPattern = psi;
              specs.push_back(s);
            }
      // C3. swap guard: full product of (which level carries a swap limit) x (how full the root swap is), validation on - the
      // effective utilisation is the HIGHEST usage/limit ratio on the path, not the ratio of the tightest limit
      if (imm)
        for (int sw = 0; sw < 4; sw++)
          for (int rs = 0; rs < 3; rs++)
            for (int files = 0; files < 3; files++)
              for (const char* thr : {"0.8", "0.5"}) {
                Spec s = base(true);
                s.args["swap_validation"] = "true";
                s.args["swap_threshold"] = thr;
                if (sw == 1 || sw == 3) {
                  s.swapMaxA = 256 * MB;
                  s.swapCurA = 10 * MB;  // own limit: the tightest on the path, and nearly unused
                }
                if (sw == 2 || sw == 3) {
                  s.swapMaxT = 2048 * MB;
                  s.swapCurT = sw == 3 ? 1900 * MB : 600 * MB;  // parent slice: nearly full / a third used
                }
                if (rs == 0) s.rootSwapTotalKb = s.rootSwapUsedKb = 0;
                if (rs == 2) s.rootSwapUsedKb = 1992294;
                s.hasReclaim = files == 1;
                s.hasHighTmp = files == 2;
                specs.push_back(s);
              }
      // C4. shared memory: it is page cache by accounting but only reclaimable through swap - the floor must not count it as file
      for (long long shm : {300 * MB, 700 * MB})
        for (int rs = 0; rs < 2; rs++)
          for (int files = 0; files < 3; files++)
            for (int psi : {0, 1}) {
              Spec s = base(imm);
              s.usage = 2 * GB;
              s.fileCache = 200 * MB;
              s.shmem = shm;
              s.anon = 2 * GB - s.fileCache - shm - 100 * MB;
              if (rs == 0) s.rootSwapTotalKb = s.rootSwapUsedKb = 0;  // no swap at all
              s.hasReclaim = files == 1;
              s.hasHighTmp = files == 2;
              s.psiPattern = psi;
              s.ticks = 12;
              specs.push_back(s);
            }
      // D. environment histories
      for (int ev = 1; ev <= 4; ev++)
        for (int psi : {0, 2})
          for (int two = 0; two < 2; two++)
            for (int files = 0; files < 3; files++) {
              Spec s = base(imm);
              s.envEvent = ev;
              s.psiPattern = psi;
              s.twoTargets = two;
              s.hasReclaim = files == 1;
              s.hasHighTmp = files == 2;
              specs.push_back(s);
            }
    }
  }
  size_t count() override { return specs.size(); }
  size_t chunk() override { return 8; }
  std::string describe(size_t i) override { return specs[i].describe(); }
  std::string klass(size_t) override { return "senpai"; }
  void workerInit() override { sim::processInit(); }

  void run(size_t si, vr::Result& r, bool verbose) override {
    const Spec& sp = specs[si];
    sim::resetScript();
    vb::resetLog();
    vb::clockNs = vb::kEpochNs;
    world::reset();
    vb::onAccess = nullptr;
    if (sp.failReclaim)
      vb::onAccess = [](const char* op, const std::string& path) -> int {
        bool opening = strncmp(op, "open", 4) == 0 || strncmp(op, "fopen", 5) == 0;
        return opening && path.size() > 15 && path.compare(path.size() - 15, 15, "/memory.reclaim") == 0 ? EAGAIN : 0;
      };
    const long long memTotal = 16LL * GB;
    world::setMeminfo(memTotal / 1024, memTotal / 2048, sp.rootSwapTotalKb, sp.rootSwapTotalKb - sp.rootSwapUsedKb);
    world::setSwaps(sp.rootSwapTotalKb > 0 ? sp.rootSwapTotalKb : -1, sp.rootSwapUsedKb);
    world::setProc("sys/vm/swappiness", std::to_string(sp.swappiness) + "\n");
    std::vector<std::string> targets = {"t/a"};
    if (sp.twoTargets) targets.push_back("t/b");
    long long someTotal = 1000;
    std::map<std::string, long long> usageOf;
    auto writeTarget = [&](const std::string& rel, long long usage) {
      world::mkcg(rel);
      usageOf[rel] = usage;
      world::setMem(rel, usage);
      world::setFile(rel, "memory.min", std::to_string(sp.memMin) + "\n");
      world::setFile(rel, "memory.max", sp.memMax == MAXV ? "max\n" : std::to_string(sp.memMax) + "\n");
      long long anonLru = sp.anon + sp.shmem;
      world::setMemStat(rel, {{"anon", sp.anon}, {"file", sp.fileCache + sp.shmem}, {"shmem", sp.shmem}, {"active_anon", anonLru / 2}, {"inactive_anon", anonLru - anonLru / 2},
                              {"active_file", sp.fileCache / 4}, {"inactive_file", sp.fileCache - sp.fileCache / 4}, {"pgscan", 0}});
      world::setFile(rel, "memory.swap.max", sp.swapMaxA == MAXV ? "max\n" : std::to_string(sp.swapMaxA) + "\n");
      world::setFile(rel, "memory.swap.current", std::to_string(sp.swapCurA) + "\n");
      if (sp.hasReclaim) world::setFile(rel, "memory.reclaim", "");
    };
    auto freshLimits = [&](const std::string& rel) {
      world::setFile(rel, "memory.high", sp.memHigh == MAXV ? "max\n" : std::to_string(sp.memHigh) + "\n");
      if (sp.hasHighTmp) world::setFile(rel, "memory.high.tmp", "max 0\n");
    };
    world::mkcg("t");
    world::setMem("t", 8 * GB);
    world::setFile("t", "memory.swap.max", sp.swapMaxT == MAXV ? "max\n" : std::to_string(sp.swapMaxT) + "\n");
    world::setFile("t", "memory.swap.current", std::to_string(sp.swapCurT) + "\n");
    world::mkcg("n");  // non-target sibling
    world::setMem("n", 1 * GB);
    for (auto& t : targets) {
      writeTarget(t, t == "t/a" ? sp.usage : sp.usage / 2);
      freshLimits(t);
    }
    std::string aj;
    for (auto& kv : sp.args) aj += ",\"" + kv.first + "\":\"" + kv.second + "\"";
    std::string json = std::string("{\"rulesets\":[{\"name\":\"RS\",\"post_action_delay\":\"0\",\"detectors\":[[\"g\",{\"name\":\"continue\",\"args\":{}}]],\"actions\":[{\"name\":\"senpai\",\"args\":{\"cgroup\":\"") +
                       (sp.twoTargets ? "t/*" : "t/a") + "\"" + aj + "}}]}]}";
    std::string err;
    auto o = sim::make(json, &err, 5);
    if (!o) {
      r.violate("C18|harness|config-rejected", err + "\n" + json);
      return;
    }
    std::vector<size_t> tickStart(sp.ticks + 2, 0);
    std::vector<std::map<std::string, long long>> usageAt(sp.ticks + 2);
    std::vector<std::set<std::string>> recreatedAt(sp.ticks + 2), presentAt(sp.ticks + 2);
    auto out = sim::runTicks(*o, sp.ticks, [&](int k) {
      someTotal += psiDelta(sp.psiPattern, k);
      if (k == 4 && sp.envEvent == 1) world::rmcg("t/a");
      if (k == 4 && sp.envEvent == 2) {
        world::rmcg("t/a");
        writeTarget("t/a", sp.usage);
        freshLimits("t/a");
        recreatedAt[k].insert("t/a");
      }
      if (k == 4 && sp.envEvent == 3 && world::exists("t/a")) world::setFile("t/a", sp.hasHighTmp ? "memory.high.tmp" : "memory.high", sp.hasHighTmp ? "777777 5\n" : "777777\n");
      if (k == 3 && sp.envEvent == 4) {
        usageOf["t/a"] = sp.usage + 300 * MB;
        world::setMem("t/a", usageOf["t/a"]);
      }
      for (auto& t : targets)
        if (world::exists(t)) {
          world::Psi some{sp.memSome, sp.memSome, 0.0, someTotal}, full{0, 0, 0, someTotal / 2};
          world::setPsi(t, "memory", some, full);
          world::Psi iosome{sp.ioSome, sp.ioSome, 0.0, 5}, iofull{0, 0, 0, 1};
          world::setPsi(t, "io", iosome, iofull);
          presentAt[k].insert(t);
        }
      usageAt[k] = usageOf;
      tickStart[k] = vb::effects.size();
    });
    tickStart[sp.ticks + 1] = vb::effects.size();
    std::string where = sp.describe();
    auto dump = [&]() {
      std::ostringstream l;
      int t = 0;
      for (size_t i = 0; i < vb::effects.size(); i++) {
        while (t + 1 <= sp.ticks + 1 && i >= tickStart[t + 1]) t++;
        l << "  [t" << t << "] " << vb::effects[i].str().substr(0, 160) << "\n";
      }
      return l.str();
    };
    auto fail = [&](const std::string& rule, const std::string& text) { r.violate("C18|senpai|monitor:" + rule, where + "\n" + text + "\nwrites:\n" + dump()); };
    if (out.escaped) {
      r.violate("C18|senpai|uncaught:" + out.excType, where + "\n" + out.excWhat + "\n" + out.excFrames);
      return;
    }
    // ---- reference quantities (constant over the scenario except usage) -----------------------
    auto argD = [&](const char* k, ld def) { return sp.args.count(k) ? strtold(sp.args.at(k).c_str(), nullptr) : def; };
    bool immediate = sp.args.count("immediate_backoff");
    bool swapValidation = sp.args.count("swap_validation") && sp.args.at("swap_validation") == "true";
    bool modulate = sp.args.count("modulate_swappiness");
    ld limitMin = argD("limit_min_bytes", 100.0L * MB), limitMax = argD("limit_max_bytes", 10.0L * GB), maxProbe = argD("max_probe", 0.01L);
    ld memTarget = argD("pressure_pct", 0.1L), ioTarget = argD("io_pressure_pct", 0.1L), swapThr = argD("swap_threshold", 0.8L);
    ld rootTotal = (ld)sp.rootSwapTotalKb * 1024, rootUsed = (ld)sp.rootSwapUsedKb * 1024;
    // effective swap free / max / util for a target (levels: root, t, target)
    ld effFree = std::min<ld>(std::min<ld>(rootTotal - rootUsed, (ld)sp.swapMaxT - sp.swapCurT), (ld)sp.swapMaxA - sp.swapCurA);
    ld effMax = std::min<ld>(std::min<ld>(rootTotal, (ld)sp.swapMaxT), (ld)sp.swapMaxA);
    ld effUtil = rootTotal > 0 ? rootUsed / rootTotal : 0;
    if (sp.swapMaxT != 0) effUtil = std::max<ld>(effUtil, (ld)sp.swapCurT / (ld)sp.swapMaxT);
    if (sp.swapMaxA != 0) effUtil = std::max<ld>(effUtil, (ld)sp.swapCurA / (ld)sp.swapMaxA);
    bool swapUsable = rootTotal > 0 && sp.swappiness > 0;
    auto floorOf = [&](ld usage) {
      ld swappable = 0;
      if (swapUsable && effFree > 0) swappable = std::min<ld>(effFree, (ld)sp.anon + sp.shmem);  // the anon LRU carries shmem too
      ld reclaimable = sp.fileCache + swappable;
      return std::max<ld>((ld)sp.memMin, usage - reclaimable + limitMin);
    };
    auto ceilingOf = [&](ld usage) {
      ld c = std::min<ld>((ld)memTotal, usage + limitMax);
      if (sp.hasHighTmp) c = std::min<ld>(c, (ld)sp.memHigh);
      return std::min<ld>(c, (ld)sp.memMax);
    };
    // ---- walk the write log -------------------------------------------------------------------
    int tick = 0;
    size_t nLimitWrites = 0, nReclaims = 0, nAdjusted = 0;
    std::string origSwappiness = std::to_string(sp.swappiness);
    for (size_t i = 0; i < vb::effects.size(); i++) {
      while (tick + 1 <= sp.ticks + 1 && i >= tickStart[tick + 1]) tick++;
      auto& e = vb::effects[i];
      if (e.kind != "ctlwrite") {
        if (e.kind == "kill" || e.kind == "setxattr") return fail("foreign-effect", e.str());
        continue;
      }
      std::string file = e.path.substr(e.path.rfind('/') + 1);
      if (e.path == world::procRoot() + "/sys/vm/swappiness") {
        if (!modulate) return fail("swappiness-touched", "system swappiness written although modulate_swappiness is off");
        continue;
      }
      std::string dir = e.path.substr(0, e.path.rfind('/'));
      std::string rel = dir.size() > world::cgfs().size() ? dir.substr(world::cgfs().size() + 1) : "";
      if (std::find(targets.begin(), targets.end(), rel) == targets.end()) return fail("foreign-cgroup", file + " of '" + rel + "' written; senpai's cgroup argument does not match it");
      if (file != "memory.high" && file != "memory.high.tmp" && file != "memory.reclaim") return fail("foreign-file", file + " written");
      ld usage = usageAt[tick].count(rel) ? (ld)usageAt[tick][rel] : 0;
      ld fl = floorOf(usage), ce = ceilingOf(usage);
      bool pressuresLow = std::max(sp.memSome, sp.memSome) < (double)memTarget && std::max(sp.ioSome, sp.ioSome) < (double)ioTarget;
      bool swapOk = true;
      if (swapValidation && swapUsable && effMax > 0) swapOk = effUtil < swapThr;
      if (file == "memory.reclaim") {
        nReclaims++;
        if (!immediate) return fail("reclaim-outside-immediate-mode", "memory.reclaim written in limit-tracking mode");
        ld R = strtold(e.arg.c_str(), nullptr);
        if (R > maxProbe * (usage - fl) + 1) return fail("reclaim-too-large", "reclaim of " + e.arg + " bytes exceeds max_probe x (usage - floor) = " + std::to_string((double)(maxProbe * (usage - fl))));
        if (!pressuresLow) return fail("reclaim-under-pressure", "reclaim issued while memory/io 'some' pressure is not below its target");
        if (!swapOk) return fail("reclaim-despite-swap-threshold", "reclaim issued although effective swap utilisation " + std::to_string((double)effUtil) + " is not below swap_threshold " + std::to_string((double)swapThr));
        continue;
      }
      // memory.high / memory.high.tmp
      std::string vtxt = e.arg.substr(0, e.arg.find(' '));
      long long v = atoll(vtxt.c_str());
      nLimitWrites++;
      if (file == "memory.high.tmp" && !sp.hasHighTmp) return fail("foreign-file", "memory.high.tmp written although the kernel does not offer it");
      if (file == "memory.high" && sp.hasHighTmp) return fail("wrong-limit-file", "memory.high written although memory.high.tmp is available");
      if (immediate) {
        // a temporary poke: value = usage - R, must be followed by a reset to max within the tick
        if (v == MAXV) continue;
        ld R = usage - v;
        if (R > maxProbe * (usage - fl) + 4096) return fail("reclaim-too-large", "limit poke " + vtxt + " reclaims " + std::to_string((double)R) + " > max_probe x (usage - floor)");
        if (!pressuresLow) return fail("reclaim-under-pressure", "limit poke while pressure is not below target");
        if (!swapOk) return fail("reclaim-despite-swap-threshold", "limit poke although effective swap utilisation " + std::to_string((double)effUtil) + " is not below swap_threshold " + std::to_string((double)swapThr));
        bool reset = false;
        for (size_t j = i + 1; j < tickStart[tick + 1]; j++)
          if (vb::effects[j].kind == "ctlwrite" && vb::effects[j].path == e.path && atoll(vb::effects[j].arg.c_str()) == MAXV) reset = true;
        if (!reset) return fail("poke-not-reset", "temporary limit " + vtxt + " on " + rel + " was not reset to max within the same tick");
        continue;
      }
      if (v == (long long)usage) continue;  // start / restart of tracking
      nAdjusted++;
      if (v & 0xFFF) return fail("limit-not-page-aligned", "limit " + vtxt + " on " + rel);
      if ((ld)v < fl - 4095) return fail("limit-below-floor", "limit " + vtxt + " on " + rel + " is more than a page below the floor " + std::to_string((double)fl));
      if ((ld)v > ce && !(fl > ce)) return fail("limit-above-ceiling", "limit " + vtxt + " on " + rel + " exceeds the ceiling " + std::to_string((double)ce) + " (floor " + std::to_string((double)fl) + ")");
    }
    // swappiness restored within the tick: at the end its content is the original value
    {
      std::string cur;
      vb::rawRead(world::procRoot() + "/sys/vm/swappiness", &cur);
      while (!cur.empty() && cur.back() == '\n') cur.pop_back();
      if (cur != origSwappiness) return fail("swappiness-not-restored", "system swappiness is '" + cur + "' after the run, was " + origSwappiness);
      // and after every tick: the last swappiness write of a tick must restore it
      for (int t = 1; t <= sp.ticks; t++) {
        std::string last;
        for (size_t i = tickStart[t]; i < tickStart[t + 1]; i++)
          if (vb::effects[i].kind == "ctlwrite" && vb::effects[i].path == world::procRoot() + "/sys/vm/swappiness") last = vb::effects[i].arg;
        if (!last.empty() && last != origSwappiness) return fail("swappiness-not-restored", "tick " + std::to_string(t) + " left swappiness at " + last);
      }
    }
    // re-created cgroup: the first limit written afterwards (limit-tracking mode) is its current usage, never a value derived from the old state
    if (!immediate && sp.envEvent == 2) {
      for (size_t i = tickStart[4]; i < vb::effects.size(); i++) {
        auto& e = vb::effects[i];
        if (e.kind != "ctlwrite" || e.path.find("/t/a/memory.high") == std::string::npos) continue;
        long long v = atoll(e.arg.c_str());
        if (v != sp.usage) return fail("stale-state-after-recreation", "first limit written to the re-created t/a is " + std::to_string(v) + ", not its current usage");
        break;
      }
    }
    r.counters["limit_writes"] += (long long)nLimitWrites;
    r.counters["adjusted_limit_writes"] += (long long)nAdjusted;
    r.counters["reclaim_writes"] += (long long)nReclaims;
    std::ostringstream ob;
    for (auto& e : vb::effects)
      if (e.kind == "ctlwrite") ob << e.path.substr(world::cgfs().size() < e.path.size() ? world::cgfs().size() : 0) << "=" << e.arg << ";";
    if (nLimitWrites + nReclaims > 0) r.nontrivial(ob.str());
    (void)verbose;
  }
  std::string rule() override {
    return "senpai as an action under an always-firing ruleset, 8 ticks: (A) every senpai argument at low/high values one at a time x 6 PSI stall histories x both "
           "modes; (B) product of usage x file/anon split x memory.min x memory.high x memory.max x swap limits at target and parent x root swap (none, 25 %, 95 % "
           "used) x swappiness x {plain, memory.reclaim, memory.high.tmp}; (C) immediate mode with memory/io 'some' pressure {0,0.05,0.1,0.2} around the targets; (D) target "
           "removed / re-created / limit changed by a third party / usage growing mid-history, one or two targets. Monitor over every write(2): only memory.high(.tmp) / "
           "memory.reclaim of matched cgroups (+ swappiness when asked, restored in the tick); each limit = current usage or 4 KiB-aligned, >= floor-4095, <= ceiling unless "
           "floor > ceiling (floor/ceiling recomputed independently); immediate mode: amount <= max_probe x (usage-floor), only with both pressures below target and (swap "
           "validation) effective swap utilisation below swap_threshold; poke reset to max in the same tick; non-trivial = distinct write log";
  }
  Json::Value bounds() override {
    Json::Value b;
    b["ticks"] = 8;
    b["scenarios"] = (Json::UInt64)specs.size();
    return b;
  }
  std::vector<std::string> assumptions() override {
    return {"memory_high_timeout_ms (threaded write with a real-time timeout) is not exercised", "kernfs semantics of memory.high / memory.high.tmp read-back are modelled by the harness world"};
  }
};
}  // namespace
int main(int argc, char** argv) {
  C18 d;
  return vr::main(argc, argv, d);
}
