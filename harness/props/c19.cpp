// C19 - Stats service.  (L) counters: 3 threads x <= 2 operations on 2 colliding keys of the real
// Stats, all schedules within the preemption bound, every recorded call/return history checked for
// linearizability against a std::map reference by brute force.  (P) protocol and shutdown: the real
// accept loop, handler threads and destructor with scheduled raw AF_UNIX client sessions (request
// bytes, stall past the 2 s timeout in virtual time, half-close, RST, disconnect before reading).
// (S) socket paths of every length around sizeof(sun_path).
#include <sys/socket.h>
#include <sys/stat.h>
#include <sys/un.h>

#include <algorithm>
#include <map>
#include <sstream>
#include <thread>

#include "common/runner.h"
#include "oomd/Stats.h"
#include "oomd/StatsClient.h"
#include "sched/explore.h"

namespace {

struct OpSpec {
  char kind;  // i increment, s set, r reset, g getAll; G / R = the same through a real socket session (StatsClient)
  std::string key;
  int val;
  std::string str() const {
    if (kind == 'i') return "inc(" + key + "," + std::to_string(val) + ")";
    if (kind == 's') return "set(" + key + "," + std::to_string(val) + ")";
    if (kind == 'G') return "socket 'g'";
    if (kind == 'R') return "socket 'r'";
    return kind == 'r' ? "reset()" : "getAll()";
  }
};
struct Client {
  std::string bytes;  // request bytes ("" = send nothing)
  int behaviour;      // 0 send+read to EOF, 1 stall (send nothing, keep open), 2 half-close after sending, 3 RST (SO_LINGER 0) after sending, 4 close before reading
};
struct Cfg {
  char fam;
  std::string name;
  std::vector<std::vector<OpSpec>> progs;  // L
  std::vector<Client> clients;             // P
  int pathLen = 0;                         // S
  int pb = 2;
  int eintr = 0;                           // P: up to this many blocking reads of the server are interrupted (EINTR)
};

struct Event {
  int thread, op;
  bool call;
  std::string result;  // for returns
};

std::string mapStr(const std::unordered_map<std::string, int>& m) {
  std::map<std::string, int> o(m.begin(), m.end());
  std::string s = "{";
  for (auto& kv : o) s += kv.first + "=" + std::to_string(kv.second) + ",";
  return s + "}";
}

// brute-force linearizability: is there a total order of the ops consistent with real-time order whose sequential
// execution on a std::map yields the observed results?
bool linearizable(const std::vector<std::vector<OpSpec>>& progs, const std::vector<Event>& ev, const std::map<std::string, int>& initial, std::string* why) {
  struct Op {
    int t, k;
    size_t callAt, retAt;
    std::string result;
  };
  std::vector<Op> ops;
  for (size_t i = 0; i < ev.size(); i++) {
    if (ev[i].call)
      ops.push_back({ev[i].thread, ev[i].op, i, (size_t)-1, ""});
    else
      for (auto& o : ops)
        if (o.t == ev[i].thread && o.k == ev[i].op) {
          o.retAt = i;
          o.result = ev[i].result;
        }
  }
  std::vector<int> perm(ops.size());
  for (size_t i = 0; i < perm.size(); i++) perm[i] = (int)i;
  do {
    bool ok = true;
    for (size_t a = 0; a < perm.size() && ok; a++)
      for (size_t b = a + 1; b < perm.size() && ok; b++)
        if (ops[perm[b]].retAt < ops[perm[a]].callAt) ok = false;  // b finished before a started but is ordered after a
    if (!ok) continue;
    std::map<std::string, int> m = initial;
    for (size_t a = 0; a < perm.size() && ok; a++) {
      const Op& o = ops[perm[a]];
      const OpSpec& sp = progs[o.t][o.k];
      std::string res = "0";
      if (sp.kind == 'i') m[sp.key] += sp.val;
      if (sp.kind == 's') m[sp.key] = sp.val;
      if (sp.kind == 'r' || sp.kind == 'R')
        for (auto& kv : m) kv.second = 0;
      if (sp.kind == 'g' || sp.kind == 'G') {
        res = "{";
        for (auto& kv : m) res += kv.first + "=" + std::to_string(kv.second) + ",";
        res += "}";
      }
      if (res != o.result) ok = false;
    }
    if (ok) return true;
  } while (std::next_permutation(perm.begin(), perm.end()));
  if (why) {
    std::ostringstream o;
    for (auto& e : ev) o << "  T" << e.thread << (e.call ? " call " : " ret  ") << progs[e.thread][e.op].str() << (e.call ? "" : " -> " + e.result) << "\n";
    *why = o.str();
  }
  return false;
}

struct C19 : vr::Driver {
  std::vector<Cfg> cfgs;
  std::string tier_;
  std::string id() override { return "C19"; }
  void configure(const std::string& tier, uint64_t) override {
    tier_ = tier;
    bool th = tier == "thorough";
    int pb = th ? 3 : 2;
    auto L = [&](const std::string& n, std::vector<std::vector<OpSpec>> p) {
      Cfg c;
      c.fam = 'L';
      c.name = n;
      c.progs = p;
      c.pb = pb;
      cfgs.push_back(c);
    };
    OpSpec ia{'i', "a", 1}, ia2{'i', "a", 2}, dec{'i', "a", -1}, ib{'i', "b", 1}, sa{'s', "a", 7}, sb{'s', "b", 3}, rs{'r', "", 0}, ga{'g', "", 0};
    L("inc/inc/read", {{ia, ia}, {ia2, ga}, {ga}});
    L("inc/set/read", {{ia, sb}, {sa, ia}, {ga, ga}});
    L("inc/reset/read", {{ia, ia}, {rs, ga}, {ib, ga}});
    L("dec/inc/reset", {{dec, ga}, {ia, ib}, {rs}});
    L("set/set/read", {{sa, ga}, {{'s', "a", 9}, ga}, {ga}});
    // a key that does not exist yet (first increment creates it)
    L("first increments of a new key", {{{'i', "c", 1}}, {{'i', "c", 2}, ga}, {{'i', "c", 4}}});
    L("new key: inc vs set vs reset", {{{'i', "c", 1}, ga}, {{'s', "c", 5}}, {rs, {'i', "c", 1}}});
    // values served over the socket are part of the same sequential order as the API calls
    OpSpec G{'G', "", 0}, R{'R', "", 0};
    {
      int save = pb;
      pb = th ? 2 : 1;
      L("socket reader twice vs incrementer", {{ia}, {G, G}});
      L("socket reader vs set then API read", {{sa, ga}, {G}});
      if (th) {
        L("socket reset vs incrementer", {{ia, ga}, {R, G}});
        L("two socket readers vs incrementer", {{ia, ia}, {G}, {G}});
      }
      pb = save;
    }
    if (th) {
      L("three incrementers", {{ia, ia}, {ia, ia}, {ia, ga}});
      L("reset vs new key", {{ib, ga}, {rs, {'i', "c", 4}}, {ga, ga}});
    }
    auto P = [&](const std::string& n, std::vector<Client> cl, int b) {
      Cfg c;
      c.fam = 'P';
      c.name = n;
      c.clients = cl;
      c.pb = b;
      cfgs.push_back(c);
    };
    int pbP = th ? 2 : 1;
    const char alpha[] = {'g', 'r', '0', 'x', '\n', '\0'};
    std::vector<std::string> reqs = {""};
    for (char a : alpha) reqs.push_back(std::string(1, a));
    for (char a : alpha)
      for (char b : alpha) {
        if (!th && !((a == 'g' && b == '\n') || (a == 'x' && b == 'g') || (a == '\n' && b == 'g') || (a == '\0' && b == 'r') || (a == 'r' && b == 'r') || (a == '0' && b == '\0'))) continue;
        reqs.push_back(std::string(1, a) + std::string(1, b));
      }
    reqs.push_back(std::string(31, 'g'));
    reqs.push_back(std::string(32, 'r'));
    reqs.push_back(std::string(33, 'x'));
    reqs.push_back("g" + std::string(40, 'z') + "\n");
    for (auto& rq : reqs) {
      std::string shown;
      for (char ch : rq) shown += ch == '\n' ? "\\n" : ch == '\0' ? "\\0" : std::string(1, ch);
      if (shown.size() > 12) shown = shown.substr(0, 3) + "..(" + std::to_string(rq.size()) + " bytes)";
      P("one client sends '" + shown + "' and reads to EOF", {{rq, 0}}, pbP);
    }
    for (int beh = 1; beh <= 4; beh++)
      for (const char* rq : {"g\n", "x", ""}) {
        if (beh == 1 && *rq) continue;
        static const char* bn[] = {"", "stalls without sending", "half-closes after sending", "resets the connection after sending", "closes before reading"};
        P(std::string("one client ") + bn[beh] + " '" + (std::string(rq) == "g\n" ? "g\\n" : rq) + "'", {{rq, beh}}, pbP);
      }
    // a signal interrupts one of the server's blocking reads: the session must still be answered correctly, or dropped - never mis-answered
    for (const char* rq : {"g\n", "r\n", "0\n"}) {
      P(std::string("one client sends '") + std::string(rq, 1) + "\\n'; one blocking read of the server returns EINTR", {{rq, 0}}, th ? 1 : 0);
      cfgs.back().eintr = 1;
    }
    int pb2 = th ? 1 : 0;  // two concurrent sessions: the free (blocking-point) choices alone already order them in every way
    P("two clients: 'g' and 'r'", {{"g\n", 0}, {"r\n", 0}}, pb2);
    P("two clients: one stalls, one asks 'g'", {{"", 1}, {"g\n", 0}}, pb2);
    P("two clients: reset + closes before reading", {{"g\n", 3}, {"g\n", 4}}, pb2);
    if (th) P("three clients g/r/stall", {{"g\n", 0}, {"r\n", 0}, {"", 1}}, 1);
    for (int len = 100; len <= 120; len++) {
      Cfg c;
      c.fam = 'S';
      c.pathLen = len;
      c.name = "socket path of " + std::to_string(len) + " bytes (sun_path holds " + std::to_string((int)sizeof(((sockaddr_un*)nullptr)->sun_path)) + ")";
      cfgs.push_back(c);
    }
  }
  size_t count() override { return cfgs.size(); }
  std::string describe(size_t i) override {
    std::string s = std::string(1, cfgs[i].fam) + ": " + cfgs[i].name;
    if (cfgs[i].fam == 'L') {
      s += " programs:";
      for (size_t t = 0; t < cfgs[i].progs.size(); t++) {
        s += " T" + std::to_string(t) + "[";
        for (auto& o : cfgs[i].progs[t]) s += o.str() + ";";
        s += "]";
      }
    }
    if (cfgs[i].fam != 'S') s += " PB<=" + std::to_string(cfgs[i].pb);
    return s;
  }
  std::string klass(size_t i) override { return cfgs[i].fam == 'L' ? "counters" : cfgs[i].fam == 'P' ? "protocol" : "socket-path"; }
  double scenarioTimeoutSec() override { return 3000; }
  bool tieBreakNondeterminism() override { return true; }
  double deadlineSec(const std::string& tier) override { return tier == "quick" ? 240 : 1500; }

  static std::string sockPath() { return "/dev/shm/c19s." + std::to_string(getpid()); }

  vx::Body bodyL(const Cfg& c) {
    return [c](vx::Result& r) {
      std::string path = sockPath();
      auto stats = Oomd::Stats::get_for_unittest(path);
      stats->set("a", 5);
      stats->set("b", 1);
      std::map<std::string, int> initial = {{"a", 5}, {"b", 1}};
      std::vector<Event> ev;
      std::vector<std::thread> ts;
      for (size_t t = 0; t < c.progs.size(); t++)
        ts.emplace_back([&, t] {
          for (size_t k = 0; k < c.progs[t].size(); k++) {
            const OpSpec& o = c.progs[t][k];
            ev.push_back({(int)t, (int)k, true, ""});
            std::string res = "0";
            if (o.kind == 'i') res = std::to_string(stats->increment(o.key, o.val));
            if (o.kind == 's') res = std::to_string(stats->set(o.key, o.val));
            if (o.kind == 'r') res = std::to_string(stats->reset());
            if (o.kind == 'g') res = mapStr(stats->getAll());
            if (o.kind == 'G') {
              Oomd::StatsClient cl(path);
              auto m = cl.getStats();
              res = m ? mapStr(*m) : "<no reply>";
            }
            if (o.kind == 'R') {
              Oomd::StatsClient cl(path);
              res = std::to_string(cl.resetStats());
            }
            ev.push_back({(int)t, (int)k, false, res});
          }
        });
      for (auto& t : ts) t.join();
      std::string final = mapStr(stats->getAll());
      std::string why;
      if (!linearizable(c.progs, ev, initial, &why)) {
        r.rule = "not-linearizable";
        r.detail = "no sequential order of the operations explains the observed results:\n" + why;
      } else {
        // the final state must also be reachable: append a virtual getAll
        auto progs = c.progs;
        progs.push_back({{'g', "", 0}});
        auto ev2 = ev;
        ev2.push_back({(int)progs.size() - 1, 0, true, ""});
        ev2.push_back({(int)progs.size() - 1, 0, false, final});
        if (!linearizable(progs, ev2, initial, &why)) {
          r.rule = "not-linearizable";
          r.detail = "final counter values " + final + " are not the result of any sequential order:\n" + why;
        }
      }
      // shutdown is the protocol family's subject; here the object is abandoned (the process exits right after the verdict), which keeps
      // the destructor's client/server exchange out of every counter schedule
      (void)stats.release();
      ::unlink(path.c_str());
      std::string ob = final + "|";
      for (auto& e : ev)
        if (!e.call && (c.progs[e.thread][e.op].kind == 'g' || c.progs[e.thread][e.op].kind == 'G')) ob += e.result;
      r.obs = ob;
    };
  }

  vx::Body bodyP(const Cfg& c) {
    return [c](vx::Result& r) {
      std::string path = sockPath();
      vs::exemptThisThreadFromFaults();
      vs::setInterruptBudget(c.eintr);
      auto stats = Oomd::Stats::get_for_unittest(path);
      stats->set("k", 4);
      std::vector<std::string> replies(c.clients.size());
      std::vector<int> fds(c.clients.size(), -1);
      std::vector<std::thread> ts;
      for (size_t i = 0; i < c.clients.size(); i++)
        ts.emplace_back([&, i] {
          vs::exemptThisThreadFromFaults();
          const Client& cl = c.clients[i];
          int fd = ::socket(AF_UNIX, SOCK_STREAM, 0);
          sockaddr_un a{};
          a.sun_family = AF_UNIX;
          strcpy(a.sun_path, path.c_str());
          if (::connect(fd, (sockaddr*)&a, sizeof a) != 0) {
            replies[i] = "<connect failed>";
            ::close(fd);
            return;
          }
          fds[i] = fd;
          // MSG_NOSIGNAL: the server may legitimately have dropped the session already (e.g. its first read was interrupted); a SIGPIPE
          // in the HARNESS client would otherwise be mistaken for a crash of the code under test
          if (!cl.bytes.empty()) (void)!::send(fd, cl.bytes.data(), cl.bytes.size(), MSG_NOSIGNAL);
          if (cl.behaviour == 1) return;  // stall: keep the connection open, send nothing (closed by the harness at the end)
          if (cl.behaviour == 2) ::shutdown(fd, SHUT_WR);
          if (cl.behaviour == 3) {
            struct linger lg = {1, 0};
            ::setsockopt(fd, SOL_SOCKET, SO_LINGER, &lg, sizeof lg);
            ::close(fd);
            fds[i] = -1;
            return;
          }
          if (cl.behaviour == 4) {
            ::close(fd);
            fds[i] = -1;
            return;
          }
          // read to EOF; a client that sent fewer than 32 bytes without a terminator waits for the server's own 2 s timeout
          char b[4096];
          for (;;) {
            ssize_t n = ::read(fd, b, sizeof b);
            if (n <= 0) break;
            replies[i].append(b, (size_t)n);
          }
          ::close(fd);
          fds[i] = -1;
        });
      for (auto& t : ts) t.join();
      // the server must still answer a well-behaved client (no injected faults any more)
      vs::setInterruptBudget(0);
      std::string probe;
      {
        Oomd::StatsClient cl(path);
        auto m = cl.getStats();
        probe = m ? mapStr(*m) : "<none>";
      }
      int64_t t0 = vs::nowNs();
      stats.reset();  // ~Stats: must return (it aborts the process if a handler thread is still counted after 5 s)
      int64_t shutdownMs = (vs::nowNs() - t0) / 1000000;
      for (int fd : fds)
        if (fd >= 0) ::close(fd);
      ::unlink(path.c_str());
      // ---- oracle
      for (size_t i = 0; i < c.clients.size() && r.rule.empty(); i++) {
        const Client& cl = c.clients[i];
        if (cl.behaviour != 0 && cl.behaviour != 2) continue;
        const std::string& rep = replies[i];
        char mode = 'a';
        if (!cl.bytes.empty() && cl.bytes[0] != '\n' && cl.bytes[0] != '\0') mode = cl.bytes[0];
        Json::Value root;
        Json::CharReaderBuilder rb;
        std::string errs;
        std::istringstream is(rep);
        if (rep.empty()) {
          // a reply is owed unless the server legitimately timed the read out (request neither terminated nor 32 bytes long, client still open)
          bool terminated = cl.bytes.find('\n') != std::string::npos || cl.bytes.find('\0') != std::string::npos || cl.bytes.size() >= 32 || cl.behaviour == 2;
          // (a session whose read was interrupted may be dropped without a reply: "at most one reply")
          if (terminated && c.eintr == 0) {
            r.rule = "no-reply";
            r.detail = "client " + std::to_string(i) + " sent a complete request but got no reply";
          }
          continue;
        }
        if (!Json::parseFromStream(rb, is, &root, &errs) || !root.isObject() || !root.isMember("error") || !root.isMember("body")) {
          r.rule = "malformed-reply";
          r.detail = "client " + std::to_string(i) + " got '" + rep.substr(0, 200) + "'";
          continue;
        }
        // at most one reply: the text must be exactly one JSON document
        {
          std::string rest;
          std::getline(is, rest, '\0');
          if (rest.find('{') != std::string::npos) {
            r.rule = "more-than-one-reply";
            r.detail = rep.substr(0, 300);
            continue;
          }
        }
        int wantErr = (mode == 'g' || mode == 'r' || mode == '0') ? 0 : 1;
        if (root["error"].asInt() != wantErr) {
          r.rule = "wrong-error-code";
          r.detail = "request mode '" + std::string(1, mode) + "' answered with error=" + root["error"].toStyledString();
        }
        if (mode == 'g' && !root["body"].isMember("k")) {
          r.rule = "wrong-body";
          r.detail = "'g' reply lacks the counters: " + rep.substr(0, 200);
        }
      }
      if (r.rule.empty() && probe == "<none>") {
        r.rule = "server-wedged";
        r.detail = "after the client sessions a well-behaved 'g' client got no answer";
      }
      if (r.rule.empty() && shutdownMs > 5000) {
        r.rule = "shutdown-too-slow";
        r.detail = "~Stats took " + std::to_string(shutdownMs) + " ms of virtual time";
      }
      std::string ob = probe + "|" + std::to_string(shutdownMs / 1000) + "s|";
      for (auto& rp : replies) ob += std::to_string(rp.size() > 0) + (rp.find("\"error\" : 1") != std::string::npos ? "E" : "") + ",";
      r.obs = ob;
    };
  }

  void run(size_t ci, vr::Result& r, bool verbose) override {
    const Cfg& c = cfgs[ci];
    if (c.fam == 'S') {
      runPath(c, r);
      return;
    }
    vx::Stats st;
    std::map<std::string, std::pair<std::string, std::vector<int>>> first;
    std::map<std::string, size_t> cnt;
    const char* tmp = getenv("VERIF_SAN_PREFIX");
    bool done = vx::explore(c.fam == 'L' ? bodyL(c) : bodyP(c), c.pb, tier_ == "thorough" ? 300000 : 40000, tier_ == "thorough" ? 1200 : 200, 2, st,
                            [&](const vx::Result& res, const std::vector<int>& prefix) {
                              if (res.status == vx::S_OK) return;
                              std::string rule = res.status == vx::S_VIOLATION ? "monitor:" + res.rule : std::string(vx::statusName(res.status));
                              if (res.status == vx::S_CRASH) {
                                if (res.detail.find("OCHECK") != std::string::npos || res.detail.find("Assertion") != std::string::npos || res.detail.find("ABRT") != std::string::npos) rule = "crash:abort";
                              }
                              cnt[rule]++;
                              if (!first.count(rule)) first[rule] = {res.detail, res.trace.empty() ? prefix : res.choices()};
                            },
                            20000, tmp ? tmp : "");
    for (auto& kv : first) {
      std::string sched;
      for (int ch : kv.second.second) sched += std::to_string(ch) + ",";
      r.violate("C19|" + klass(ci) + "|" + kv.first, describe(ci) + "\n" + kv.second.first.substr(0, 6000) + "\nschedule (choices): " + sched + "\n(" + std::to_string(cnt[kv.first]) + " schedules of this configuration)");
    }
    r.evals = st.schedules;
    r.counters["states"] += (long long)st.outcomes.size();
    r.counters["transitions"] += (long long)st.schedules;
    r.counters["schedules"] += (long long)st.schedules;
    r.counters["nd_schedules_re_executed_after_divergence_or_timeout"] += (long long)st.retries;
    r.counters[std::string("schedules_") + klass(ci)] += (long long)st.schedules;
    r.counters["max_schedules_one_config"] = (long long)st.schedules;
    r.counters["configs_bound_completed"] += done ? 1 : 0;
    r.counters["configs_capped"] += done ? 0 : 1;
    for (auto& o : st.outcomes) r.nontrivial(c.name + o);
    if (verbose)
      for (auto& o : st.outcomes) printf("  outcome: %s\n", o.substr(0, 200).c_str());
  }

  void runPath(const Cfg& c, vr::Result& r) {
    // unscheduled, in a child: construct the service with a path of exactly pathLen bytes
    int p[2];
    if (pipe(p) != 0) return;
    pid_t pid = fork();
    if (pid == 0) {
      close(p[0]);
      std::string dir = "/dev/shm/c19p." + std::to_string(getpid());
      mkdir(dir.c_str(), 0700);
      std::string path = dir + "/";
      while ((int)path.size() < c.pathLen) path += 's';
      std::string verdict;
      try {
        auto s = Oomd::Stats::get_for_unittest(path);
        verdict = "started";
        s->set("x", 1);
        {
          Oomd::StatsClient cl(path);
          auto m = cl.getStats();
          verdict += m ? ",client-ok" : ",client-failed";
        }
        s.reset();
      } catch (const std::exception& e) {
        verdict = std::string("init-failed:") + e.what();
      }
      (void)!write(p[1], verdict.data(), verdict.size());
      unlink(path.c_str());
      rmdir(dir.c_str());
      _exit(0);
    }
    close(p[1]);
    std::string verdict;
    char b[512];
    ssize_t n;
    while ((n = read(p[0], b, sizeof b)) > 0) verdict.append(b, (size_t)n);
    close(p[0]);
    int status = 0;
    waitpid(pid, &status, 0);
    vx::detail::rmTree("/dev/shm/c19p." + std::to_string(pid));  // whatever the child left behind (it may have died)
    size_t cap = sizeof(((sockaddr_un*)nullptr)->sun_path);
    bool crashed = !WIFEXITED(status) || WEXITSTATUS(status) != 0;
    std::string where = describe(&c - &cfgs[0]);
    if (crashed) {
      std::string san;
      const char* tmp = getenv("VERIF_SAN_PREFIX");
      if (tmp) {
        std::string f = std::string(tmp) + "." + std::to_string(pid);
        if (FILE* fp = fopen(f.c_str(), "r")) {
          char bb[6000];
          size_t k = fread(bb, 1, sizeof bb - 1, fp);
          bb[k] = 0;
          san = bb;
          fclose(fp);
          unlink(f.c_str());
        }
      }
      r.violate("C19|socket-path|crash", where + "\nthe process died while starting the service (signal " + std::to_string(WIFSIGNALED(status) ? WTERMSIG(status) : 0) + ")\n" + san);
    } else if ((size_t)c.pathLen >= cap && verdict.rfind("init-failed", 0) != 0) {
      r.violate("C19|socket-path|monitor:overlong-path-accepted", where + "\na path that does not fit sun_path must be reported as an initialisation failure; got: " + verdict);
    } else if ((size_t)c.pathLen < cap && verdict != "started,client-ok") {
      r.violate("C19|socket-path|monitor:usable-path-rejected", where + "\ngot: " + verdict);
    }
    r.nontrivial(std::to_string(c.pathLen) + verdict);
    r.counters["states"] += 1;
    r.counters["transitions"] += 1;
  }
  std::string rule() override {
    return "(L) 5-7 three-thread programs of <= 2 operations from {increment(+-), set, reset, getAll} on colliding keys: all schedules with <= PB preemptions on the real Stats; each "
           "call/return history (plus the final state) must be linearizable w.r.t. a std::map (brute force over all orders consistent with real-time order; reset zeroes but keeps keys). "
           "(P) the real accept loop + handler threads + ~Stats with 1-3 scheduled raw AF_UNIX clients: every request of length <= 2 over {g r 0 x \\n \\0}, lengths 31/32/33 and 42, "
           "and the behaviours stall (server's 2 s receive timeout fires in virtual time), half-close, RST, close before reading; all schedules with <= PB preemptions; oracle: at most one "
           "well-formed JSON reply with the documented error/body then EOF, server still answers afterwards, ~Stats returns within its 5 s bound, no abort/deadlock. (S) socket paths of "
           "100..120 bytes: must start and serve (< sizeof sun_path) or report an initialisation failure (>=), never crash; states = distinct outcomes, transitions = schedules";
  }
  Json::Value bounds() override {
    Json::Value b;
    b["preemption_bound_counters"] = tier_ == "thorough" ? 3 : 2;
    b["preemption_bound_protocol"] = tier_ == "thorough" ? 2 : 1;
    b["timeouts"] = "fire only at quiescence, earliest virtual deadline first (computation is fast relative to the 2 s / 5 s timeouts)";
    return b;
  }
  std::vector<std::string> assumptions() override {
    return {"the two atomics (statsThreadRunning_, thread_count_) are each accessed adjacent to a scheduling point (accept / connect / lock), so both orders are generated by ordering those points",
            "data-race freedom between scheduling points is monitored by the separate ThreadSanitizer pass"};
  }
};
}  // namespace
int main(int argc, char** argv) {
  C19 d;
  return vr::main(argc, argv, d);
}
