// C09 - Each kill plugin's first choice follows its documented ranking policy.  Flat sibling sets
// of 3 cgroups, dry=true, first choice read from the '(dry)' kmsg record; full product of
// per-sibling statistic profiles x plugin parameters; reference ranking in exact / long-double
// arithmetic with explicit tolerance: the plugin's choice must lie in the reference's arg-max
// set, an ineligible cgroup must never be chosen, and something must be chosen if a candidate is
// definitely eligible.
#include <cmath>
#include <set>

#include "common/killsim.h"
#include "common/runner.h"

namespace {
using ks::Cg;
typedef long double ld;
typedef __int128 i128;

struct Prof {            // kill_by_memory_size_or_growth sibling profile
  long long prev, cur, low;
};
const long long MB = 1LL << 20;
const std::vector<Prof> kKmg = {
    {5 * MB, 5 * MB, 0},                          // steady small
    {(1LL << 31), (1LL << 31), 0},                // 2 GiB steady
    {(1LL << 31) - 4096, ((1LL << 31) - 4096) / 4 * 5, 0},  // grew 1.25x
    {(1LL << 32) + 4096, (1LL << 32) + 4096, ((1LL << 32) + 4096) / 2},  // half protected
    {1LL << 39, 1LL << 40, 0},                    // doubled
    {1LL << 40, 1LL << 40, 1LL << 40},            // fully protected
    {1LL << 61, 1LL << 61, 0},                    // huge
    {0, 0, 0},                                    // empty
    {(1LL << 31), (1LL << 31) / 100 * 105, 0},    // grew 1.05x (ratio ~1.258 after the warm-up)
    {0, (1LL << 31), 0},                          // appeared from nothing
    {(1LL << 30), (1LL << 30), 0},                // 1 GiB steady: two of these next to the 2 GiB one put it EXACTLY at size_threshold=50
    {5LL << 29, 5LL << 29, 3LL << 29},            // 2.5 GiB steady, 1.5 GiB protected (effective 1 GiB): with the next one and the 1 GiB one it
    {3LL << 29, 3LL << 29, 0},                    // sits exactly at size_threshold=50 while 1.5 GiB steady has the larger effective usage
    {30408704, 26391552, 0},                      // usage / moving average == 1.1 EXACTLY after the warm-up (26391552 / 23992320)
    {1LL << 31, 1LL << 30, 0},                    // shrank to half: large, but far below any growth ratio
};
// 1074266112 = exactly 50% of the SwapTotal of memory configuration 1 ((2^21+1024) kB, not a multiple of 100 bytes): a usage AT the
// percentage threshold is not above it
const long long kSwapVals[] = {0, 1, MB, 1074266112LL, (1LL << 31) - 4096, 1LL << 31, (1LL << 32) + 4096, 1LL << 40, 1LL << 61};
struct MemCfg {
  long long swapTotalKb, memTotalKb;
};
const MemCfg kMem[] = {{1LL << 20, 1LL << 22}, {(1LL << 21) + 1024, 1LL << 23}, {(1LL << 22) + 1024, (1LL << 22) + 1024}, {1LL << 30, 1LL << 31}};
const char* kSwapThr[] = {"", "0", "50%", "1.5G", "4096K", "2048"};
struct PsiP {
  double a10, a60;
};
const PsiP kPsi[] = {{0, 0}, {0.5, 0.5}, {1.0, 0.5}, {1.5, 1.5}, {10.25, 10.25}, {10.75, 10.25}, {99.99, 0.01}, {50, 51}};
struct IoP {  // io.stat of device 8:0 (SSD) / 8:16 (HDD) / 9:0 (not configured) at the previous and the evaluation tick
  long long r0, w0, r1, w1;
  int dev;
};
const IoP kIo[] = {{0, 0, 0, 0, 0}, {1000, 0, 1000, 0, 0}, {1000, 0, 5000, 0, 0}, {5000, 0, 1000, 0, 0}, {0, 0, 1LL << 40, 0, 0}, {100, 100, 200, 5000, 1}, {0, 0, 1LL << 50, 1LL << 50, 2}};
struct PgP {
  long long p0, p1;
};
const PgP kPg[] = {{100, 100}, {100, 300}, {300, 100}, {0, 1LL << 40}, {100, 101}, {5, 5}, {1LL << 50, (1LL << 50) + 7}};

struct Item {
  int fam;  // 0 kmg, 1 swap, 2 pressure, 3 io, 4 pgscan
  std::vector<int> p;
  int n = 3;  // number of siblings (kmg family also runs with 4 and 5: the percentile index depends on it)
};

struct C09 : vr::Driver {
  std::vector<Item> items;
  std::string tier_;
  std::string id() override { return "C09"; }
  void configure(const std::string& tier, uint64_t) override {
    tier_ = tier;
    bool th = tier == "thorough";
    int nK = (int)kKmg.size();
    // kmg: profiles^3 x size_threshold{0,50,100} x min_growth_ratio{1,1.25,1.5} x percentile{0,50,80,99}
    for (int a = 0; a < nK; a++)
      for (int b = 0; b < nK; b++)
        for (int c = 0; c < nK; c++) {
          if (!th && !((a <= b && b <= c) || (a + b + c) % 7 == 0)) continue;  // quick: multisets + a slice of the permutations
          for (int st = 0; st < 3; st++)
            for (int gr = 0; gr < 4; gr++)
              for (int pc = 0; pc < 4; pc++) items.push_back({0, {a, b, c, st, gr, pc}});
        }
    // kmg with 4 and 5 siblings (growing_size_percentile picks a different index than with 3): 6 profiles
    {
      const std::vector<int> sub = {0, 1, 2, 4, 8, 9};
      for (int n : {4, 5}) {
        if (!th && n == 5) continue;
        std::vector<int> idx(n, 0);
        while (true) {
          bool sortedUp = true;
          for (int k = 1; k < n; k++) sortedUp &= idx[k - 1] <= idx[k];
          if (sortedUp || (th && n == 4)) {  // multisets; all sequences for n=4 in thorough
            for (int st = 0; st < 3; st++)
              for (int gr = 0; gr < 4; gr++)
                for (int pc = 0; pc < 4; pc++) {
                  Item it{0, {}, n};
                  for (int k = 0; k < n; k++) it.p.push_back(sub[idx[k]]);
                  it.p.push_back(st);
                  it.p.push_back(gr);
                  it.p.push_back(pc);
                  items.push_back(it);
                }
          }
          int k = 0;
          while (k < n && ++idx[k] == (int)sub.size()) idx[k++] = 0;
          if (k == n) break;
        }
      }
    }
    int nS = th ? 9 : 7;
    for (int a = 0; a < nS; a++)
      for (int b = 0; b < nS; b++)
        for (int c = 0; c < nS; c++)
          for (int m = 0; m < 4; m++)
            for (int t = 0; t < 6; t++)
              for (int bias = 0; bias < 2; bias++)
                for (int prot = 0; prot < 2; prot++) {
                  if (!bias && prot) continue;
                  if (!th && !(a <= b || (a + b + c) % 3 == 0)) continue;
                  items.push_back({1, {a, b, c, m, t, bias, prot}});
                }
    for (int a = 0; a < 8; a++)
      for (int b = 0; b < 8; b++)
        for (int c = 0; c < 8; c++)
          for (int res = 0; res < 2; res++) items.push_back({2, {a, b, c, res}});
    for (int a = 0; a < 7; a++)
      for (int b = 0; b < 7; b++)
        for (int c = 0; c < 7; c++) items.push_back({3, {a, b, c}});
    for (int a = 0; a < 7; a++)
      for (int b = 0; b < 7; b++)
        for (int c = 0; c < 7; c++) items.push_back({4, {a, b, c}});
  }
  size_t count() override { return items.size(); }
  size_t chunk() override { return 16; }
  const char* pluginOf(int fam) {
    static const char* n[] = {"kill_by_memory_size_or_growth", "kill_by_swap_usage", "kill_by_pressure", "kill_by_io_cost", "kill_by_pg_scan"};
    return n[fam];
  }
  std::string describe(size_t i) override {
    std::string s = std::string(pluginOf(items[i].fam)) + " profiles/params:";
    for (int v : items[i].p) s += " " + std::to_string(v);
    return s + "  -> " + build(items[i]).describe().substr(0, 700);
  }
  std::string klass(size_t i) override { return pluginOf(items[i].fam); }
  void workerInit() override { sim::processInit(); }

  static const int kWarm = 5;  // ticks with the previous statistics before the evaluation tick
  ks::Scenario build(const Item& it) {
    ks::Scenario s;
    s.plugin = pluginOf(it.fam);
    s.args["cgroup"] = "p/*";
    s.args["dry"] = "true";
    static const char* names[] = {"p/a", "p/b", "p/c", "p/d", "p/e"};
    const int N = it.n;
    Cg parent;
    parent.rel = "p";
    s.cgs.push_back(parent);
    for (int k = 0; k < N; k++) {
      Cg c;
      c.rel = names[k];
      c.nprocs = 2;
      s.cgs.push_back(c);
    }
    s.autoPgscan = false;
    auto& P = it.p;
    if (it.fam == 0) {
      static const char* st[] = {"0", "50", "100"};
      static const char* gr[] = {"1", "1.25", "1.5", "1.1"};
      static const char* pc[] = {"0", "50", "80", "99"};
      s.args["size_threshold"] = st[P[N]];
      s.args["min_growth_ratio"] = gr[P[N + 1]];
      s.args["growing_size_percentile"] = pc[P[N + 2]];
      s.ticks = kWarm + 1;
      std::vector<Prof> pr;
      for (int i = 0; i < N; i++) pr.push_back(kKmg[P[i]]);
      s.onTick = [pr, N](int k) {
        long long sum = 0;
        for (int i = 0; i < N; i++) {
          long long u = k <= kWarm ? pr[i].prev : pr[i].cur;
          world::setMem(names[i], u);
          world::setFile(names[i], "memory.low", std::to_string(pr[i].low) + "\n");
          sum += u;
        }
        world::setMem("p", sum);
        world::setFile("p", "memory.low", "max\n");
      };
    } else if (it.fam == 1) {
      s.memTotalKb = kMem[P[3]].memTotalKb;
      s.swapTotalKb = kMem[P[3]].swapTotalKb;
      if (*kSwapThr[P[4]]) s.args["threshold"] = kSwapThr[P[4]];
      if (P[5]) s.args["biased_swap_kill"] = "true";
      s.ticks = 1;
      std::vector<long long> sw = {kSwapVals[P[0]], kSwapVals[P[1]], kSwapVals[P[2]]};
      bool prot = P[6];
      s.onTick = [sw, prot](int) {
        long long sum = 0;
        for (int i = 0; i < 3; i++) {
          world::setFile(names[i], "memory.swap.current", std::to_string(sw[i]) + "\n");
          long long cur = 1LL << 33;
          world::setMem(names[i], cur);
          world::setFile(names[i], "memory.low", std::to_string(prot ? (i == 0 ? cur : i == 1 ? cur / 2 : 0) : 0) + "\n");
          sum += cur;
        }
        world::setMem("p", sum);
        world::setFile("p", "memory.low", "max\n");
      };
    } else if (it.fam == 2) {
      s.args["resource"] = P[3] ? "io" : "memory";
      s.ticks = 1;
      std::vector<PsiP> ps = {kPsi[P[0]], kPsi[P[1]], kPsi[P[2]]};
      bool io = P[3];
      s.onTick = [ps, io](int) {
        for (int i = 0; i < 3; i++) {
          world::Psi full{ps[i].a10, ps[i].a60, 1.0, 1000}, other{0.01, 0.01, 0.01, 1};
          world::setPsi(names[i], io ? "io" : "memory", other, full);
          world::setPsi(names[i], io ? "memory" : "io", other, other);
        }
      };
    } else if (it.fam == 3) {
      s.ticks = 3;
      std::vector<IoP> ps = {kIo[P[0]], kIo[P[1]], kIo[P[2]]};
      s.onTick = [ps](int k) {
        for (int i = 0; i < 3; i++) {
          long long r = k <= 2 ? ps[i].r0 : ps[i].r1, w = k <= 2 ? ps[i].w0 : ps[i].w1;
          const char* dev = ps[i].dev == 0 ? "8:0" : ps[i].dev == 1 ? "8:16" : "9:0";
          world::setFile(names[i], "io.stat",
                         std::string(dev) + " rbytes=" + std::to_string(r) + " wbytes=" + std::to_string(w) + " rios=" + std::to_string(r / 4096) + " wios=" + std::to_string(w / 4096) + " dbytes=0 dios=0\n");
        }
      };
    } else {
      s.ticks = 3;
      std::vector<PgP> ps = {kPg[P[0]], kPg[P[1]], kPg[P[2]]};
      s.onTick = [ps](int k) {
        for (int i = 0; i < 3; i++) world::setMemStatKey(names[i], "pgscan", k <= 2 ? ps[i].p0 : ps[i].p1);
      };
    }
    return s;
  }

  // fuzzy comparison: definitely greater
  static bool dgt(ld a, ld b, ld tol) { return a - b > tol; }

  void run(size_t idx, vr::Result& r, bool verbose) override {
    const Item& it = items[idx];
    ks::Scenario s = build(it);
    ks::Outcome o = ks::run(s, verbose);
    std::string cls = std::string("C09|") + s.plugin + "|";
    if (!o.rejected.empty()) {
      r.violate("C09|harness|config-rejected", o.rejected + "\n" + ks::configJson(s));
      return;
    }
    if (o.tick.escaped) {
      r.violate(cls + "uncaught:" + o.tick.excType, describe(idx) + "\n" + o.tick.excWhat + "\n" + o.tick.excFrames);
      return;
    }
    int evalTick = s.ticks;
    std::string chosen;
    for (auto& a : o.attempts)
      if (a.tick == evalTick && chosen.empty()) chosen = a.victim;
    // reference
    const char* names[] = {"p/a", "p/b", "p/c", "p/d", "p/e"};
    const int N = it.n;
    struct Cand {
      bool definitelyEligible = true, definitelyIneligible = false;
      int phase = 1;            // smaller = better
      ld key = 0, key2 = 0;     // within-phase key, secondary key
      ld tol = 0;
      bool openRank = false;    // position left open by the statement
    };
    Cand c[5];
    bool open = false;  // scenario sits on a threshold within tolerance: nothing demanded
    std::ostringstream expl;
    auto& P = it.p;
    if (it.fam == 0) {
      static const int stv[] = {0, 50, 100}, pcv[] = {0, 50, 80, 99};
      static const ld grv[] = {1.0L, 1.25L, 1.5L, 1.1L};
      static const long long grNum[] = {1, 5, 3, 11}, grDen[] = {1, 4, 2, 10};  // the same ratios as exact fractions
      ld usage[5], eff[5], ratio[5], avgv[5];
      ld total = 0;
      for (int i = 0; i < N; i++) {
        const Prof& pr = kKmg[P[i]];
        ld avg = 0;
        for (int k = 1; k <= kWarm + 1; k++) {
          ld u = k <= kWarm ? pr.prev : pr.cur;
          avg = floorl(avg * 0.75L + u / 4);
        }
        usage[i] = pr.cur;
        ld prot = std::min<ld>(pr.cur, pr.low);
        eff[i] = usage[i] - prot;
        avgv[i] = avg;
        ratio[i] = avg > 0 ? usage[i] / avg : 0;
        total += usage[i];
      }
      ld T = total * stv[P[N]] / 100;
      int pc = pcv[P[N + 2]];
      ld effThr = 0;
      if (pc > 0) {
        // 'the biggest growing_size_percentile by size': the top (100-pc)% of the N siblings, at least one of them
        int nth = (int)ceill(N * (100 - (ld)pc) / 100) - 1;
        std::vector<ld> sorted(eff, eff + N);
        std::sort(sorted.begin(), sorted.end(), [](ld a, ld b) { return a > b; });
        effThr = sorted[nth];
      }
      for (int i = 0; i < N; i++) {
        ld tolT = T * 1e-9L + 1, tolR = ratio[i] * (1e-5L + (avgv[i] > 0 ? 8 / avgv[i] : 0));
        // "holding at least size_threshold % of the siblings' total": exact while the total is exactly representable (< 2^53);
        // only beyond that is a sibling sitting on the threshold left open
        bool exactT = total < 9007199254740992.0L;
        bool size1 = exactT ? usage[i] >= floorl(T) : usage[i] >= T;
        if (!exactT && fabsl(usage[i] - T) <= tolT && stv[P[N]] != 0) open = true;
        bool grow = ratio[i] >= grv[P[N + 1]] && eff[i] >= effThr;
        // "ratios act at exactly the configured value": usage / average EQUAL to min_growth_ratio (as exact fractions) is a
        // grower; only a ratio that is close to it without being equal is left open
        bool exactlyAt = avgv[i] > 0 && (i128)usage[i] * grDen[P[N + 1]] == (i128)avgv[i] * grNum[P[N + 1]];
        if (exactlyAt)
          grow = eff[i] >= effThr;
        else if (fabsl(ratio[i] - grv[P[N + 1]]) <= tolR)
          open = true;
        if (avgv[i] > 0 && avgv[i] < 1000) open = true;  // integer EWMA of tiny values: left open
        c[i].phase = size1 ? 1 : grow ? 2 : 3;
        c[i].key = c[i].phase == 2 ? ratio[i] : eff[i];
        c[i].tol = c[i].phase == 2 ? tolR : 0.5L;
        if (c[i].phase == 1 && eff[i] == 0) c[i].openRank = true;  // fully protected member of the size phase: left open
        expl << "  " << names[i] << " usage=" << (double)usage[i] << " eff=" << (double)eff[i] << " avg=" << (double)avgv[i] << " ratio=" << (double)ratio[i]
             << " phase=" << c[i].phase << "\n";
      }
      expl << "  T=" << (double)T << " effThr=" << (double)effThr << "\n";
    } else if (it.fam == 1) {
      ld swapTotal = (ld)kMem[P[3]].swapTotalKb * 1024, memTotal = (ld)kMem[P[3]].memTotalKb * 1024;
      ld thr = 1;
      std::string t = kSwapThr[P[4]];
      if (t == "0") thr = 0;
      if (t == "50%") thr = floorl(swapTotal / 2);
      if (t == "1.5G") thr = 1.5L * (1LL << 30);
      if (t == "4096K") thr = 4096.0L * 1024;
      if (t == "2048") thr = 2048.0L * MB;
      for (int i = 0; i < 3; i++) {
        ld sw = kSwapVals[P[i]];
        c[i].definitelyEligible = sw > thr;
        c[i].definitelyIneligible = !(sw > thr);
        c[i].phase = 1;
        if (P[5]) {
          ld cur = (ld)(1LL << 33);
          ld prot = P[6] ? (i == 0 ? cur : i == 1 ? cur / 2 : 0) : 0;
          ld low = swapTotal / memTotal * prot;
          c[i].key = std::max<ld>(0, sw - low);
          c[i].tol = std::max(sw, low) * 1e-6L + 1;
        } else {
          c[i].key = sw;
          c[i].tol = 0.5L;
        }
        expl << "  " << names[i] << " swap=" << (double)sw << " key=" << (double)c[i].key << " eligible=" << c[i].definitelyEligible << "\n";
      }
      expl << "  threshold=" << (double)thr << "\n";
    } else if (it.fam == 2) {
      for (int i = 0; i < 3; i++) {
        c[i].key = ((ld)kPsi[P[i]].a10 + (ld)kPsi[P[i]].a60) / 2;
        c[i].tol = 1e-4L;
        expl << "  " << names[i] << " mean(10s,60s)=" << (double)c[i].key << "\n";
      }
    } else if (it.fam == 3) {
      // SSD / HDD coefficients as configured by sim::IoCfg (Main.cpp defaults)
      const ld ssd_riops = 1.21e-2L, ssd_rbw = 6.25e-7L, ssd_wiops = 1.07e-3L, ssd_wbw = 2.61e-7L;
      const ld hdd_riops = 1.31e-3L, hdd_rbw = 1.13e-7L, hdd_wiops = 2.58e-1L, hdd_wbw = 5.04e-7L;
      for (int i = 0; i < 3; i++) {
        const IoP& q = kIo[P[i]];
        auto cost = [&](long long rb, long long wb) -> ld {
          ld ri = rb / 4096, wi = wb / 4096;
          if (q.dev == 0) return ri * ssd_riops + rb * ssd_rbw + wi * ssd_wiops + wb * ssd_wbw;
          if (q.dev == 1) return ri * hdd_riops + rb * hdd_rbw + wi * hdd_wiops + wb * hdd_wbw;
          return 0;
        };
        ld c0 = cost(q.r0, q.w0), c1 = cost(q.r1, q.w1);
        c[i].key = c1 - c0;
        c[i].tol = (fabsl(c0) + fabsl(c1)) * 1e-9L + 1e-9L;
        expl << "  " << names[i] << " io cost increase=" << (double)c[i].key << "\n";
      }
    } else {
      for (int i = 0; i < 3; i++) {
        ld d = (ld)kPg[P[i]].p1 - (ld)kPg[P[i]].p0;
        c[i].definitelyEligible = d > 0;
        c[i].definitelyIneligible = !(d > 0);
        c[i].key = d;
        c[i].tol = 0.5L;
        expl << "  " << names[i] << " pgscan increase=" << (double)d << "\n";
      }
    }
    r.counters["scenarios_open_on_threshold"] += open;
    std::string obs = std::string(s.plugin) + ":" + chosen + ":";
    for (int i = 0; i < N; i++) obs += std::to_string(c[i].phase) + (c[i].definitelyIneligible ? "x" : "e");
    if (!open) {
      auto fail = [&](const std::string& rule, const std::string& text) {
        r.violate(cls + "model-mismatch:" + rule, describe(idx) + "\nfirst choice: '" + chosen + "'\n" + text + "\nreference view:\n" + expl.str());
      };
      int ci = -1;
      for (int i = 0; i < N; i++)
        if (chosen == names[i]) ci = i;
      bool anyEligible = false;
      for (int i = 0; i < N; i++) anyEligible |= (c[i].definitelyEligible && !c[i].definitelyIneligible);
      if (chosen.empty()) {
        if (anyEligible) return fail("nothing-chosen", "an eligible candidate exists but no victim was selected");
      } else if (ci < 0) {
        return fail("foreign-choice", "first choice is not one of the siblings");
      } else if (c[ci].definitelyIneligible) {
        return fail("ineligible-chosen", std::string(names[ci]) + " fails the plugin's eligibility filter but was chosen");
      } else {
        for (int j = 0; j < N; j++) {
          if (j == ci || c[j].definitelyIneligible) continue;
          if (c[j].openRank || c[ci].openRank) continue;
          bool better = c[j].phase < c[ci].phase || (c[j].phase == c[ci].phase && dgt(c[j].key, c[ci].key, std::max(c[j].tol, c[ci].tol)));
          if (better) return fail("not-the-documented-first-choice", std::string(names[j]) + " ranks strictly above the chosen " + names[ci]);
        }
      }
    }
    r.nontrivial(obs);
  }
  std::string rule() override {
    return "flat sets of 3 equally-preferred siblings (kill_by_memory_size_or_growth also 4 and 5 siblings over 6 profiles, where growing_size_percentile selects a different rank), dry=true, first choice = cgroup named by the '(dry)' record of the evaluation tick. "
           "kill_by_memory_size_or_growth: 15 (previous usage, usage, memory.low) profiles per sibling (sizes 0..2^61, 2^31 and 2^32 boundaries, "
           "growth x1/x1.05/x1.25/x2/from nothing, half/fully protected) after a 5-tick warm-up x size_threshold {0,50,100} x min_growth_ratio "
           "{1,1.25,1.5,1.1} x growing_size_percentile {0,50,80,99}; kill_by_swap_usage: swap {0,1,2^20,exactly 50% of a SwapTotal that is no multiple of 100,2^31-4096,2^31,2^32+4096,(2^40,2^61)} per sibling x 4 "
           "(SwapTotal,MemTotal) pairs around 2^31/2^32 x threshold {default,0,50%,1.5G,4096K,2048} x biased x protection; kill_by_pressure: 8 "
           "(avg10,avg60) profiles with fractional means x resource; kill_by_io_cost: 7 two-tick io.stat profiles (zero, negative, huge increase; SSD/HDD/"
           "unconfigured device); kill_by_pg_scan: 7 two-tick pgscan profiles (zero, negative, +1, huge). Oracle: reference ranking in long double / exact "
           "arithmetic; choice must be in the arg-max set (ties and differences within stated tolerance open), never ineligible, present if a candidate is "
           "eligible; non-trivial = distinct (plugin, choice, phase/eligibility pattern)";
  }
  Json::Value bounds() override {
    Json::Value b;
    b["siblings"] = 3;
    b["warmup_ticks"] = kWarm;
    b["left_open"] = "values within tolerance of a threshold; size-phase member with zero effective usage; EWMA of values < 1000 bytes";
    return b;
  }
  std::vector<std::string> assumptions() override {
    return {"the parent cgroup's protection is unbounded so that a sibling's protection equals min(usage, max(memory.min, memory.low))",
            "4-sibling sets of the original plan are not enumerated"};
  }
};
}  // namespace
int main(int argc, char** argv) {
  C09 d;
  return vr::main(argc, argv, d);
}
