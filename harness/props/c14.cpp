// C14 - Drop-in directory watcher.  Threads: the main loop (real updateDropIns + engine tick), the
// real watcher thread (FsDropInService::run on real inotify/epoll over a private directory) and an
// environment thread performing file operations.  All environment sequences up to the stated length
// x all schedules within the preemption bound are enumerated; after the file system is quiet and
// three more ticks, the engine's drop-ins must equal the valid non-dot files present, each with its
// latest content.
#include <dirent.h>
#include <fcntl.h>
#include <sys/stat.h>

#include <iostream>
#include <map>
#include <sstream>
#include <thread>

#include "common/runner.h"
#include "oomd/Log.h"
#include "oomd/PluginRegistry.h"
#include "oomd/OomdContext.h"
#include "oomd/config/ConfigCompiler.h"
#include "oomd/config/JsonConfigParser.h"
#include "oomd/dropin/FsDropInService.h"
#include "oomd/engine/Engine.h"
#include "sched/explore.h"

namespace {
const char* kBase =
    "{\"rulesets\":[{\"name\":\"R1\",\"drop-in\":{\"detectors\":true,\"actions\":true},\"detectors\":[[\"g\",{\"name\":\"continue\",\"args\":{}}]],"
    "\"actions\":[{\"name\":\"continue\",\"args\":{}}]}]}";
// contents: 0 valid (1 action), 1 valid (2 actions), 2 not JSON, 3 half-written valid, 4 valid JSON that does not compile (unknown ruleset),
// 5 valid JSON whose compilation used to throw (post_action_delay "x")
const char* kContentName[] = {"valid1", "valid2", "not-json", "half-written", "unknown-ruleset", "bad-delay"};
// Every written content carries a unique stamp in the ids of its actions (`verif_mark` plugins that record their id when
// run): which drop-ins are active - and in which order they are evaluated - is OBSERVED from one tick's marks, through
// public behaviour only.
std::vector<std::string> g_marks;
class Mark : public Oomd::Engine::BasePlugin {
 public:
  int init(const Oomd::Engine::PluginArgs& args, const Oomd::PluginConstructionContext&) override {
    auto it = args.find("id");
    id_ = it == args.end() ? "?" : it->second;
    return 0;
  }
  Oomd::Engine::PluginRet run(Oomd::OomdContext&) override {
    g_marks.push_back(id_);
    return Oomd::Engine::PluginRet::CONTINUE;
  }
  static Mark* create() { return new Mark(); }

 private:
  std::string id_;
};
using namespace Oomd;
REGISTER_PLUGIN(verif_mark, Mark::create);

std::string contentOf(int c, int stamp) {
  auto mark = [&](int k) { return "{\"name\":\"verif_mark\",\"args\":{\"id\":\"" + std::to_string(stamp) + "." + std::to_string(k) + "\"}}"; };
  std::string v1 = "{\"rulesets\":[{\"name\":\"R1\",\"actions\":[" + mark(0) + "]}]}";
  std::string v2 = "{\"rulesets\":[{\"name\":\"R1\",\"actions\":[" + mark(0) + "," + mark(1) + "]}]}";
  switch (c) {
    case 0: return v1;
    case 1: return v2;
    case 2: return "this is { not json";
    case 3: return v1.substr(0, v1.size() / 2);
    case 4: return "{\"rulesets\":[{\"name\":\"R9\",\"actions\":[" + mark(0) + "]}]}";
    case 5: return "{\"rulesets\":[{\"name\":\"R1\",\"post_action_delay\":\"x\",\"actions\":[" + mark(0) + "]}]}";
  }
  return "";
}
int versionOf(int c) { return c == 0 ? 1 : c == 1 ? 2 : 0; }  // 0 = not a valid drop-in

struct EnvOp {
  char kind;  // W create/overwrite in one go, T truncate-then-write (two steps), S rewrite the same bytes in two steps, A atomic replace via dot-file + rename, D delete, M rename a->b, R rmdir+mkdir
  std::string file;
  int content;
  std::string str() const {
    switch (kind) {
      case 'W': return "write(" + file + "," + kContentName[content] + ")";
      case 'T': return "truncate+write(" + file + "," + kContentName[content] + ")";
      case 'A': return "atomic-replace(" + file + "," + kContentName[content] + ")";
      case 'D': return "delete(" + file + ")";
      case 'S': return "rewrite-same-bytes-in-two-steps(" + file + ")";
      case 'M': return "rename(a->b)";
      case 'R': return "rmdir+mkdir(dir)";
    }
    return "?";
  }
};
struct Cfg {
  std::vector<std::pair<std::string, int>> preexisting;  // files present at start-up
  std::vector<EnvOp> ops;
  int pb;
  std::string str() const {
    std::string s = "start:{";
    for (auto& p : preexisting) s += p.first + "=" + kContentName[p.second] + " ";
    s += "} env:";
    for (auto& o : ops) s += " " + o.str();
    return s + " PB<=" + std::to_string(pb);
  }
};

struct NullBuf : std::streambuf {
  int overflow(int c) override { return c; }
  std::streamsize xsputn(const char*, std::streamsize n) override { return n; }
};

void writeFile(const std::string& p, const std::string& data, int flags) {
  int fd = ::open(p.c_str(), flags, 0644);
  if (fd < 0) return;
  (void)!::write(fd, data.data(), data.size());
  ::close(fd);
}

struct C14 : vr::Driver {
  std::vector<Cfg> cfgs;
  std::string tier_;
  std::string id() override { return "C14"; }
  void configure(const std::string& tier, uint64_t) override {
    tier_ = tier;
    bool th = tier == "thorough";
    int pb = th ? 2 : 1;
    std::vector<EnvOp> alphabet;
    for (const char* f : {"a", "b", ".hidden"})
      for (int c = 0; c < 6; c++) {
        alphabet.push_back({'W', f, c});
        if (std::string(f) != ".hidden") alphabet.push_back({'T', f, c});
      }
    for (const char* f : {"a", "b"})
      for (int c : {0, 1, 2}) alphabet.push_back({'A', f, c});
    alphabet.push_back({'D', "a", 0});
    alphabet.push_back({'D', "b", 0});
    alphabet.push_back({'S', "a", 0});  // truncate and write the file's CURRENT bytes again, in two steps (no-op if the file is absent)
    alphabet.push_back({'M', "a", 0});
    alphabet.push_back({'R', "", 0});
    // length-1 sequences from an empty directory and from a directory holding a=valid1
    for (auto& o : alphabet) {
      cfgs.push_back({{}, {o}, pb});
      cfgs.push_back({{{"a", 0}}, {o}, pb});
    }
    // start-up loading: name order, dot-files, invalid files
    cfgs.push_back({{{"a", 0}, {"b", 1}}, {}, pb});
    cfgs.push_back({{{"b", 0}, {"a", 1}, {".hidden", 0}, {"c", 2}}, {}, pb});
    // length-2 sequences
    for (size_t i = 0; i < alphabet.size(); i++)
      for (size_t j = 0; j < alphabet.size(); j++) {
        const EnvOp &x = alphabet[i], &y = alphabet[j];
        if (!th) {
          // quick: pairs that touch the same file (or the directory), with at least one valid content involved
          bool related = x.file == y.file || x.kind == 'R' || y.kind == 'R' || x.kind == 'M' || y.kind == 'M';
          bool interesting = (x.kind == 'D' || x.kind == 'M' || x.kind == 'R' || versionOf(x.content)) && (y.kind == 'D' || y.kind == 'M' || y.kind == 'R' || !versionOf(y.content) || y.content != x.content);
          if (!related || !interesting || x.file == ".hidden" || y.file == ".hidden") continue;
          if ((i * 7 + j * 3) % 4) continue;
        }
        cfgs.push_back({{}, {x, y}, th ? 1 : 1});
      }
    // length-3 sequences on ONE file: add / remove / add again and friends (events may be drained in a single read)
    {
      EnvOp Wa1{'W', "a", 0}, Wa2{'W', "a", 1}, Da{'D', "a", 0}, Ma{'M', "a", 0}, Aa1{'A', "a", 0}, Aa2{'A', "a", 1}, Wbad{'W', "a", 2};
      std::vector<std::vector<EnvOp>> tri = {{Wa1, Da, Wa1}, {Wa1, Da, Wa2}, {Aa1, Da, Aa2}, {Wa1, Ma, Wa2}, {Wa1, Wa2, Da}, {Wa1, Wbad, Wa2}};
      for (size_t k = 0; k < tri.size(); k++)
        if (th || k == 1 || k == 2 || k == 3) cfgs.push_back({{}, tri[k], 1});
      cfgs.push_back({{{"a", 0}}, {Da, Wa2, Da}, 1});
      // the directory is removed and re-created, and is not empty any more when the main loop looks again
      EnvOp Rd{'R', "", 0};
      cfgs.push_back({{}, {Rd, Wa1}, 1});
      cfgs.push_back({{{"a", 0}}, {Rd, Wa2}, 1});
      if (th) cfgs.push_back({{{"a", 0}}, {Da, Aa2, Wa1}, 1});
    }
    if (th)
      for (auto& x : alphabet)
        for (auto& y : alphabet)
          if (x.file == "a" && y.file == "a" && x.kind != 'A' && y.kind != 'A') cfgs.push_back({{{"a", 1}}, {x, y, {'W', "b", 0}}, 1});
  }
  size_t count() override { return cfgs.size(); }
  std::string describe(size_t i) override { return cfgs[i].str(); }
  std::string klass(size_t) override { return "watcher"; }
  double scenarioTimeoutSec() override { return 3000; }
  bool tieBreakNondeterminism() override { return true; }
  double deadlineSec(const std::string& tier) override { return tier == "quick" ? 240 : 1500; }

  vx::Body bodyFor(const Cfg& c) {
    return [c](vx::Result& r) {
      static NullBuf nb;
      std::cerr.rdbuf(&nb);
      std::string top = "/dev/shm/c14." + std::to_string(getpid());
      std::string dir = top + "/dropins";
      vb_rm(top);  // leftovers of an earlier process with the same pid
      mkdir(top.c_str(), 0700);
      mkdir(dir.c_str(), 0700);
      int nextStamp = 1;
      std::map<std::string, int> stampOf;
      for (auto& p : c.preexisting) {
        stampOf[p.first] = nextStamp++;
        writeFile(dir + "/" + p.first, contentOf(p.second, stampOf[p.first]), O_WRONLY | O_CREAT | O_TRUNC);
      }
      g_marks.clear();
      Oomd::Config2::JsonConfigParser parser;
      auto root = parser.parse(kBase);
      Oomd::PluginConstructionContext cctx("/sys/fs/cgroup");
      auto engine = Oomd::Config2::compile(*root, cctx);
      Oomd::OomdContext ctx;
      std::unique_ptr<Oomd::FsDropInService> svc;
      auto tick = [&] {
        svc->updateDropIns();
        engine->prerun(ctx);
        engine->runOnce(ctx);
      };
      // the file system as the environment leaves it: file -> content index
      std::map<std::string, std::pair<int, int>> fsModel;  // file -> (content index, stamp of that write)
      for (auto& p : c.preexisting) fsModel[p.first] = {p.second, stampOf[p.first]};
      // hand-shake between the environment and the main loop (plain variables: one thread runs at a time)
      bool svcCreated = false, tickRequested = false, tickStarted = false, envDone = false;
      std::thread env([&] {
        // free choice: does the environment start acting while the service is still being created (start-up scan / watch
        // registration in progress) or only afterwards?
        if (vs::choose(2, "env starts during service creation?") == 0) vs::pointIf([&] { return svcCreated; }, "env waits for service creation");
        bool firstOp = true;
        for (auto& o : c.ops) {
          std::string p = dir + "/" + o.file;
          if (!firstOp && svcCreated && vs::choose(2, "main-loop tick before the next file operation?") == 1) {
            // ask for a tick and continue as soon as it has STARTED, so the operation can land inside the tick
            tickStarted = false;
            tickRequested = true;
            vs::pointIf([&] { return tickStarted; }, "env waits for the tick to start");
          }
          firstOp = false;
          vs::yield("env op");
          switch (o.kind) {
            case 'W':
              fsModel[o.file] = {o.content, nextStamp};
              writeFile(p, contentOf(o.content, nextStamp++), O_WRONLY | O_CREAT | O_TRUNC);
              break;
            case 'T': {
              int fd = ::open(p.c_str(), O_WRONLY | O_CREAT | O_TRUNC, 0644);
              vs::yield("env between truncate and write");
              int st = nextStamp++;
              std::string d = contentOf(o.content, st);
              if (fd >= 0) {
                (void)!::write(fd, d.data(), d.size() / 2);
                vs::yield("env mid-write");
                (void)!::write(fd, d.data() + d.size() / 2, d.size() - d.size() / 2);
                ::close(fd);
              }
              fsModel[o.file] = {o.content, st};
              break;
            }
            case 'S': {
              // same bytes, same stamp: only the intermediate states differ from "nothing happened"
              auto it = fsModel.find(o.file);
              if (it == fsModel.end()) break;
              std::string d = contentOf(it->second.first, it->second.second);
              int fd = ::open(p.c_str(), O_WRONLY | O_TRUNC, 0644);
              vs::yield("env between truncate and write");
              if (fd >= 0) {
                (void)!::write(fd, d.data(), d.size() / 2);
                vs::yield("env mid-write");
                (void)!::write(fd, d.data() + d.size() / 2, d.size() - d.size() / 2);
                ::close(fd);
              }
              break;
            }
            case 'A': {
              std::string tmp = dir + "/.tmp-" + o.file;
              int st = nextStamp++;
              writeFile(tmp, contentOf(o.content, st), O_WRONLY | O_CREAT | O_TRUNC);
              vs::yield("env before rename");
              ::rename(tmp.c_str(), p.c_str());
              fsModel[o.file] = {o.content, st};
              break;
            }
            case 'D':
              ::unlink(p.c_str());
              fsModel.erase(o.file);
              break;
            case 'M':
              if (::rename((dir + "/a").c_str(), (dir + "/b").c_str()) == 0) {
                fsModel["b"] = fsModel["a"];
                fsModel.erase("a");
              }
              break;
            case 'R': {
              if (DIR* d = opendir(dir.c_str())) {
                while (struct dirent* e = readdir(d)) {
                  std::string n = e->d_name;
                  if (n != "." && n != "..") ::unlink((dir + "/" + n).c_str());
                }
                closedir(d);
              }
              fsModel.clear();
              vs::yield("env before rmdir");
              ::rmdir(dir.c_str());
              vs::yield("env between rmdir and mkdir");
              ::mkdir(dir.c_str(), 0700);
              break;
            }
          }
        }
        envDone = true;
      });
      svc = Oomd::FsDropInService::create("/sys/fs/cgroup", *root, *engine, dir);
      svcCreated = true;
      // main loop: one tick right away, then a tick whenever the environment asks for one between two of its operations
      vs::yield("main tick");
      tick();
      while (!envDone) {
        vs::pointIf([&] { return tickRequested || envDone; }, "main waits for a tick request");
        if (tickRequested) {
          tickRequested = false;
          tickStarted = true;
          tick();
        }
      }
      env.join();
      // the file system is quiet now: let everything pending be processed, then three more ticks
      for (int k = 0; k < 3; k++) {
        vs::pointIf([] { return vs::othersBlocked(); }, "main waits for quiescence");
        g_marks.clear();
        tick();
      }
      // ---- oracle: active drop-ins == valid non-dot files present, each with its latest content.  Observed from the marks of
      // the last tick: "<stamp>.<k>" per executed drop-in action, in evaluation order.
      std::map<std::string, int> want, got;  // "stamp" -> number of actions
      std::map<int, std::string> fileOfStamp;
      for (auto& kv : fsModel)
        if (kv.first[0] != '.' && versionOf(kv.second.first)) {
          want["#" + std::to_string(kv.second.second) + "(" + kv.first + ")"] = versionOf(kv.second.first);
          fileOfStamp[kv.second.second] = kv.first;
        }
      std::string order;
      {
        std::string lastStamp;
        for (auto& mk : g_marks) {
          std::string st = mk.substr(0, mk.find('.'));
          int sti = atoi(st.c_str());
          std::string name = "#" + st + "(" + (fileOfStamp.count(sti) ? fileOfStamp[sti] : std::string("superseded or removed content")) + ")";
          got[name]++;
          if (st != lastStamp) order += (fileOfStamp.count(sti) ? fileOfStamp[sti] : "?") + ",";
          lastStamp = st;
        }
      }
      auto show = [](const std::map<std::string, int>& m) {
        std::string s = "{";
        for (auto& kv : m) s += kv.first + ":" + std::to_string(kv.second) + "action(s) ";
        return s + "}";
      };
      if (got != want) {
        r.rule = "not-converged";
        r.detail = "after the file system went quiet and three more ticks the active drop-ins are " + show(got) + " but the valid non-dot files present are " + show(want);
      } else if (c.ops.empty() && c.preexisting.size() >= 2) {
        // start-up: loaded in name order => newest (front) is the last name
        std::vector<std::string> names;
        for (auto& kv : fileOfStamp) names.push_back(kv.second);
        std::sort(names.begin(), names.end());
        std::string wantOrder;
        for (auto it = names.rbegin(); it != names.rend(); ++it) wantOrder += *it + ",";
        if (order != wantOrder) {
          r.rule = "startup-order";
          r.detail = "drop-ins present at start-up must be loaded in name order; evaluation order is " + order + " expected " + wantOrder;
        }
      }
      r.obs = show(got) + order;
      svc.reset();  // ~FsDropInService: signals and joins the watcher thread
      vb_rm(top);
    };
  }
  static void vb_rm(const std::string& path) {
    struct stat st;
    if (lstat(path.c_str(), &st) != 0) return;
    if (S_ISDIR(st.st_mode)) {
      if (DIR* d = opendir(path.c_str())) {
        while (struct dirent* e = readdir(d)) {
          std::string n = e->d_name;
          if (n != "." && n != "..") vb_rm(path + "/" + n);
        }
        closedir(d);
      }
      rmdir(path.c_str());
    } else {
      unlink(path.c_str());
    }
  }

  void run(size_t ci, vr::Result& r, bool verbose) override {
    const Cfg& c = cfgs[ci];
    Oomd::Log::get();  // construct the (inline) log singleton before any scheduled thread exists
    vx::Stats st;
    std::map<std::string, std::pair<std::string, std::vector<int>>> first;
    std::map<std::string, size_t> cnt;
    const char* tmp = getenv("VERIF_SAN_PREFIX");
    bool done = vx::explore(bodyFor(c), c.pb, tier_ == "thorough" ? 100000 : 20000, tier_ == "thorough" ? 1200 : 200, 2, st,
                            [&](const vx::Result& res, const std::vector<int>& prefix) {
                              if (res.status == vx::S_OK) return;
                              std::string rule = res.status == vx::S_VIOLATION ? "monitor:" + res.rule : std::string(vx::statusName(res.status));
                              cnt[rule]++;
                              if (!first.count(rule)) first[rule] = {res.detail, res.trace.empty() ? prefix : res.choices()};
                            },
                            20000, tmp ? tmp : "");
    for (auto& kv : first) {
      std::string sched;
      for (int ch : kv.second.second) sched += std::to_string(ch) + ",";
      r.violate("C14|watcher|" + kv.first, describe(ci) + "\n" + kv.second.first.substr(0, 6000) + "\nschedule (choices): " + sched + "\n(" + std::to_string(cnt[kv.first]) + " schedules of this configuration)");
    }
    // leftovers of crashed children
    r.evals = st.schedules;
    r.counters["states"] += (long long)st.outcomes.size();
    r.counters["transitions"] += (long long)st.schedules;
    r.counters["schedules"] += (long long)st.schedules;
    r.counters["nd_schedules_re_executed_after_divergence_or_timeout"] += (long long)st.retries;
    r.counters["configs_bound_completed"] += done ? 1 : 0;
    r.counters["configs_capped"] += done ? 0 : 1;
    for (auto& o : st.outcomes) r.nontrivial(c.str() + o);
    if (verbose)
      for (auto& o : st.outcomes) printf("  outcome: %s\n", o.substr(0, 200).c_str());
  }
  std::string rule() override {
    return "environment sequences over {write, truncate-then-write (3 steps), atomic replace via dot-file+rename, delete, rename a->b, rmdir+mkdir of the directory} x files {a, b, .hidden} x "
           "contents {valid1, valid2, not JSON, half-written, unknown ruleset, bad post_action_delay}: every length-1 sequence from an empty directory and from a directory holding a "
           "valid file, start-up directories, and length-2 sequences (all in thorough, the related pairs in quick); for each, ALL schedules of main loop (updateDropIns + prerun + runOnce) x "
           "real watcher thread (inotify/epoll) x environment thread with <= PB preemptions, one process per schedule; oracle: no deadlock/abort/crash; after the environment finished, "
           "everything pending was processed and three more ticks ran, the engine's drop-ins (tag and content version) equal the valid non-dot files present; start-up files load in name "
           "order; states = distinct outcomes, transitions = schedules";
  }
  Json::Value bounds() override {
    Json::Value b;
    b["preemption_bound"] = tier_ == "thorough" ? 2 : 1;
    b["env_sequence_length"] = tier_ == "thorough" ? 3 : 2;
    b["scheduling_points"] = "mutex lock, thread create/join, epoll_wait, eventfd write, fopen of a drop-in file, environment steps, main ticks";
    return b;
  }
  std::vector<std::string> assumptions() override {
    return {"inotify queues its events synchronously inside the file-system call, so watcher readiness is a deterministic function of the schedule",
            "the atomic drop_in_dir_deleted_ is written under event_loop_mutex_ and read right before taking it: both orders are produced by ordering the two lock acquisitions"};
  }
};
}  // namespace
int main(int argc, char** argv) {
  C14 d;
  return vr::main(argc, argv, d);
}
