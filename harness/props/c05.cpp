// C05 - Post-action delay. Explicit-state exploration of the real engine with a REAL kill
// plugin (dry) behind a transparent observer, scripted prekill hooks that stay unfinished for
// a chosen number of polls, and kill_by_pg_scan (natively two-tick), so STOP arrives
// synchronously or after 1..n async pauses, with every detector verdict during the pause.
#include "common/enginemc.h"
#include "common/world.h"

namespace {
struct Variant {
  emc::Cfg cfg;
  bool pgscan = false;
  bool slow = false;  // scripted actions that take virtual time; half-second clock advances
  std::string name;
};
struct C05 : vr::Driver {
  std::vector<Variant> vs;
  std::string tier_;
  std::string id() override { return "C05"; }
  static std::string wrapJson(const std::string& plugin, int p, const std::string& extra = "") {
    std::string j = "{\"name\":\"verif_wrap\",\"args\":{\"wrap\":\"" + plugin +
                    "\",\"id\":\"K\",\"cgroup\":\"victim\",\"dry\":\"true\"" + extra;
    if (p >= 0) j += ",\"post_action_delay\":\"" + std::to_string(p) + "\"";
    return j + "}}";
  }
  void configure(const std::string& tier, uint64_t) override {
    tier_ = tier;
    bool th = tier == "thorough";
    std::vector<int> ds = th ? std::vector<int>{-1, 0, 2, 3} : std::vector<int>{0, 2, 3};
    for (int d : ds)
      for (int p : {-1, 0, 1, 4})
        for (int hook = 0; hook < 3; hook++)
          for (int two = 0; two < 2; two++) {
            if (two && !(th || (hook == 1 && p == 4))) continue;  // second (scripted) ruleset: subset in quick
            if (d == -1 && hook == 2) continue;
            Variant v;
            emc::RulesetCfg rs;
            rs.name = "R0";
            rs.delay = d;
            rs.hookTimeout = hook == 2 ? 2 : -1;
            rs.groupNames = {"g0"};
            rs.groups = {{"R0g0d0"}};
            rs.actions.push_back({"R0a0"});
            emc::ActionCfg k;
            k.id = "K";
            k.external = true;
            k.ownDelay = p;
            k.json = wrapJson("kill_by_memory_size_or_growth", p);
            rs.actions.push_back(k);
            v.cfg.rulesets.push_back(rs);
            if (two) {
              emc::RulesetCfg r1;
              r1.name = "R1";
              r1.delay = 1;
              r1.groupNames = {"h0"};
              r1.groups = {{"R1g0d0"}};
              r1.actions.push_back({"R1a0"});
              v.cfg.rulesets.push_back(r1);
            }
            if (hook) v.cfg.extraTop = "\"prekill_hooks\":[{\"name\":\"verif_hook\",\"args\":{\"id\":\"H\",\"cgroup\":\"victim\"}}]";
            v.name = std::string("growth,hook=") + (hook == 0 ? "none" : hook == 1 ? "h5" : "h2");
            vs.push_back(v);
          }
    for (int d : {0, 3})
      for (int p : {-1, 4}) {
        Variant v;
        v.pgscan = true;
        emc::RulesetCfg rs;
        rs.name = "R0";
        rs.delay = d;
        rs.groupNames = {"g0"};
        rs.groups = {{"R0g0d0"}};
        emc::ActionCfg k;
        k.id = "K";
        k.external = true;
        k.ownDelay = p;
        k.json = wrapJson("kill_by_pg_scan", p);
        rs.actions.push_back(k);
        v.cfg.rulesets.push_back(rs);
        v.name = "pgscan";
        vs.push_back(v);
      }
    // a kill action with always_continue=true and its own delay is NOT the stopping action: the action that stops the chain
    // afterwards decides the pause (here: none of its own => the ruleset's delay)
    for (int d : {2, 3})
      for (int p : {0, 4}) {
        Variant v;
        emc::RulesetCfg rs;
        rs.name = "R0";
        rs.delay = d;
        rs.groupNames = {"g0"};
        rs.groups = {{"R0g0d0"}};
        emc::ActionCfg k;
        k.id = "K";
        k.external = true;
        k.ownDelay = p;
        k.json = wrapJson("kill_by_memory_size_or_growth", p, ",\"always_continue\":\"true\"");
        rs.actions.push_back(k);
        rs.actions.push_back({"R0a1"});
        v.cfg.rulesets.push_back(rs);
        v.name = "always-continue kill, then a scripted stopper";
        vs.push_back(v);
      }
    // slow actions: the STOP arrives later than the tick started, and the pause counts from the STOP
    for (int d : {1, 2})
      for (int p : {-1, 1})
        for (int which = 0; which < (th ? 3 : 2); which++) {
          Variant v;
          v.slow = true;
          emc::RulesetCfg rs;
          rs.name = "R0";
          rs.delay = d;
          rs.groupNames = {"g0"};
          rs.groups = {{"R0g0d0"}};
          emc::ActionCfg a0{"R0a0"}, a1{"R0a1"};
          if (which == 0) a0.busy = 0.5;
          if (which == 1) a1.busy = 0.5;
          if (which == 2) a0.busy = 0.5, a1.busy = 1.5;
          a1.ownDelay = p;
          if (p >= 0) a1.json = "{\"name\":\"verif_scripted\",\"args\":{\"id\":\"R0a1\",\"post_action_delay\":\"" + std::to_string(p) + "\"" +
                                (a1.busy > 0 ? ",\"busy\":\"" + std::to_string(a1.busy) + "\"" : std::string()) + "}}";
          rs.actions = {a0, a1};
          v.cfg.rulesets.push_back(rs);
          v.name = "slow-actions";
          vs.push_back(v);
        }
  }
  size_t count() override { return vs.size(); }
  std::string describe(size_t i) override { return vs[i].name + " config " + vs[i].cfg.brief() + " json=" + vs[i].cfg.json(); }
  std::string klass(size_t) override { return "pause"; }
  void workerInit() override { sim::processInit(); }
  void run(size_t i, vr::Result& r, bool verbose) override {
    emc::Options opt;
    opt.dts = {1, 2, 3};
    if (vs[i].slow) opt.dts = {0.5, 1, 2};
    opt.keyDeadline = true;
    opt.arity = [](const std::string& id) { return id.find('d') != std::string::npos ? 2 : 3; };
    opt.setupWorld = [] {
      world::reset();
      world::mkcg("victim");
      world::setMem("victim", 1LL << 30);
      world::addProc(4242, "victim");
      world::syncProcs();
    };
    if (vs[i].pgscan) opt.beforeTick = [](int k) { world::setMemStatKey("victim", "pgscan", 1000LL * k); };
    opt.maxTransitions = tier_ == "thorough" ? 400000 : 60000;
    emc::exploreConfig("C05", "pause", vs[i].cfg, opt, r, verbose);
  }
  std::string rule() override {
    return "per configuration (ruleset delay x plugin post_action_delay x prekill-hook variant x optional second "
           "ruleset; real kill_by_memory_size_or_growth / kill_by_pg_scan in dry mode behind an observer): BFS to "
           "fixpoint over (remaining pause, suspended action, remaining prekill window); each tick explores detector "
           "verdicts, scripted action returns, hook poll answers {finished, running} x clock advance {1,2,3}s; plus scripted chains whose actions take 0.5/1.5 virtual seconds with clock advances {0.5,1,2}s; oracle: "
           "after STOP at t with effective delay d' (plugin's if given, else ruleset's) no action of the ruleset runs "
           "before t+d', the chain starts at the first firing tick >= t+d', detectors/preruns run every tick, other "
           "ruleset unaffected (reference-model equality + private pause state)";
  }
  Json::Value bounds() override {
    Json::Value b;
    b["ruleset_delay"] = tier_ == "thorough" ? "default(15),0,2,3" : "0,2,3";
    b["plugin_delay"] = "unset,0,1,4";
    b["hook"] = "none, verif_hook (window 5 s), verif_hook (window 2 s)";
    b["clock_advances_s"] = "1,2,3";
    return b;
  }
  std::vector<std::string> assumptions() override {
    return {"dry-run kill path (no sleeps inside the real kill action); STOP later than the tick start is covered by the slow scripted actions (0.5 / 1.5 virtual seconds, half-second clock advances)",
            "per-instance pause for ruleset-cgroup rulesets (including a stopping action with its own post_action_delay) is explored by C11's check"};
  }
};
}  // namespace
int main(int argc, char** argv) {
  C05 d;
  return vr::main(argc, argv, d);
}
