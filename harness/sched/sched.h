// E2: cooperative scheduler for the three concurrent islands (DESIGN.md 2.5).  One OS thread runs
// at a time; every synchronisation / blocking-I/O operation of the code under test is a scheduling
// point reached through link-time interposition (pthread_*, accept/read/epoll_wait/...).  The
// schedule is a sequence of choices replayed from a prefix (then default 0 = keep running the
// current thread), so a stateless explorer can enumerate all schedules within a preemption bound.
#pragma once
#include <cstdint>
#include <functional>
#include <string>
#include <vector>

namespace vs {

struct TracePoint {
  uint16_t n;        // alternatives at this point
  uint16_t chosen;   // index taken
  uint8_t kind;      // 0 thread choice while the running thread is still enabled (alt != 0 is a preemption),
                     // 1 thread choice with the running thread blocked/finished (free), 2 which waiter a signal wakes (free)
  uint8_t tid;       // thread running before the point
};

enum Verdict { V_OK = 0, V_DEADLOCK = 1, V_LIVELOCK = 2, V_DIVERGED = 3 };

// start scheduling: the calling thread becomes thread 0. Choices beyond `prefix` default to 0.
void start(const std::vector<int>& prefix, int maxSteps = 20000);
// stop scheduling (threads that are still blocked stay blocked; call before reporting / _exit)
void stop();
bool active();
const std::vector<TracePoint>& trace();

// virtual time (ns since start)
int64_t nowNs();

// explicit scheduling points for harness code
void yield(const char* label = "yield");                       // visible step, always enabled
void pointIf(const std::function<bool()>& enabled, const char* label);  // blocks (schedules others) until enabled() holds
// free harness-level choice (recorded in the trace like a scheduler choice; costs no preemption)
int choose(int n, const char* label = "choice");
int self();                                                    // scheduler thread id, -1 if unscheduled
void atomicPoint(const void* addr);                            // atomics pass: scheduling point at an atomic op on a shared address
size_t atomicPoints();
void setInterruptBudget(int n);                                // fault axis: up to n blocking reads return EINTR (each one a recorded choice)
void exemptThisThreadFromFaults();                             // harness threads (clients) are never interrupted
bool othersBlocked();                                          // no other thread is enabled right now (for use inside pointIf predicates)

// called (in the failing process) when no thread is enabled and no timeout is pending / step horizon exceeded;
// default prints a description and _exit()s with 100 + verdict
extern std::function<void(Verdict, const std::string&)> onStuck;
std::string describeThreads();

// optional hash hook: harness-provided observable state included in per-point state hashes (not used for pruning by default)
extern bool logOps;  // print every scheduling point to stderr (replay mode)

}  // namespace vs
