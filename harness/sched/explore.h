// Stateless, preemption-bounded schedule explorer (CHESS style) on top of sched.h.  Every schedule
// runs in a fresh forked process: the body is executed under the cooperative scheduler with a
// choice prefix, the recorded trace comes back over a pipe, and the parent derives the next
// prefixes.  Switching away from a still-enabled thread costs one preemption; choices at points
// where the running thread is blocked (or which waiter a signal wakes) are free.
#pragma once
#include <dirent.h>
#include <fcntl.h>
#include <sys/stat.h>
#include <poll.h>
#include <signal.h>
#include <sys/syscall.h>
#include <sys/wait.h>
#include <time.h>
#include <unistd.h>

#include <cstring>
#include <functional>
#include <map>
#include <set>
#include <string>
#include <vector>

#include "sched/sched.h"

namespace vx {

enum Status { S_OK = 0, S_VIOLATION = 1, S_DEADLOCK = 2, S_LIVELOCK = 3, S_CRASH = 4, S_DIVERGED = 5, S_TIMEOUT = 6 };
inline const char* statusName(int s) {
  static const char* n[] = {"ok", "violation", "deadlock", "livelock", "crash", "replay-divergence", "wall-timeout"};
  return n[s];
}

struct Result {
  int status = S_OK;
  std::vector<vs::TracePoint> trace;
  std::string obs;     // canonical observation of this execution (for distinct-outcome counting)
  std::string rule;    // violated rule (status == violation)
  std::string detail;  // human-readable explanation
  int preemptions() const {
    int p = 0;
    for (auto& t : trace) p += (t.kind == 0 && t.chosen != 0);
    return p;
  }
  std::vector<int> choices() const {
    std::vector<int> c;
    for (auto& t : trace) c.push_back(t.chosen);
    return c;
  }
};

// Body: runs in the child, under the scheduler (vs::start already called). It fills obs; to report a violation it sets
// rule/detail. It must leave all threads joined or quiescent before returning.
typedef std::function<void(Result&)> Body;

namespace detail {
inline void putStr(std::string& out, const std::string& s) {
  uint32_t n = (uint32_t)s.size();
  out.append((const char*)&n, 4);
  out.append(s);
}
inline bool getStr(const std::string& in, size_t& pos, std::string& s) {
  if (pos + 4 > in.size()) return false;
  uint32_t n;
  memcpy(&n, in.data() + pos, 4);
  pos += 4;
  if (pos + n > in.size()) return false;
  s.assign(in.data() + pos, n);
  pos += n;
  return true;
}
inline std::string encode(const Result& r) {
  std::string out;
  int32_t st = r.status;
  uint32_t nt = (uint32_t)r.trace.size();
  out.append((const char*)&st, 4);
  out.append((const char*)&nt, 4);
  out.append((const char*)r.trace.data(), nt * sizeof(vs::TracePoint));
  putStr(out, r.obs);
  putStr(out, r.rule);
  putStr(out, r.detail);
  return out;
}
inline bool decode(const std::string& in, Result& r) {
  if (in.size() < 8) return false;
  int32_t st;
  uint32_t nt;
  memcpy(&st, in.data(), 4);
  memcpy(&nt, in.data() + 4, 4);
  size_t pos = 8;
  if (pos + nt * sizeof(vs::TracePoint) > in.size()) return false;
  r.status = st;
  r.trace.resize(nt);
  memcpy(r.trace.data(), in.data() + pos, nt * sizeof(vs::TracePoint));
  pos += nt * sizeof(vs::TracePoint);
  return getStr(in, pos, r.obs) && getStr(in, pos, r.rule) && getStr(in, pos, r.detail);
}
inline void writeAll(int fd, const std::string& s) {
  size_t off = 0;
  while (off < s.size()) {
    ssize_t n = ::write(fd, s.data() + off, s.size() - off);
    if (n <= 0) break;
    off += n;
  }
}
// scratch files of a finished child (a schedule that ends in a deadlock / crash / timeout never reaches its own clean-up, and
// pids are reused quickly: a later child with the same pid must not find them)
inline void rmTree(const std::string& path) {
  struct stat st;
  if (lstat(path.c_str(), &st) != 0) return;
  if (S_ISDIR(st.st_mode)) {
    if (DIR* d = opendir(path.c_str())) {
      while (struct dirent* e = readdir(d)) {
        std::string n = e->d_name;
        if (n != "." && n != "..") rmTree(path + "/" + n);
      }
      closedir(d);
    }
    rmdir(path.c_str());
  } else {
    unlink(path.c_str());
  }
}
inline void cleanChildScratch(pid_t pid) {
  for (const char* pre : {"/dev/shm/c14.", "/dev/shm/c19s.", "/dev/shm/c19p.", "/dev/shm/c20-kmsg."}) rmTree(std::string(pre) + std::to_string(pid));
}
inline double nowSec() {
  struct timespec ts;
  syscall(SYS_clock_gettime, CLOCK_MONOTONIC, &ts);  // the interposed clock is virtual only inside scheduled children
  return ts.tv_sec + ts.tv_nsec / 1e9;
}
}  // namespace detail

struct Job {
  std::vector<int> prefix;
  pid_t pid = -1;
  int fd = -1;
  std::string buf;
  double t0 = 0;
};

inline void childMain(const Body& body, const std::vector<int>& prefix, int fd, int maxSteps, bool verbose) {
  static int s_fd;
  s_fd = fd;
  vs::onStuck = [](vs::Verdict v, const std::string& d) {
    Result r;
    r.status = v == vs::V_DEADLOCK ? S_DEADLOCK : v == vs::V_LIVELOCK ? S_LIVELOCK : S_DIVERGED;
    r.trace = vs::trace();
    r.detail = d;
    detail::writeAll(s_fd, detail::encode(r));
    _exit(0);
  };
  vs::logOps = verbose;
  Result r;
  vs::start(prefix, maxSteps);
  body(r);
  vs::stop();
  r.trace = vs::trace();
  if (!r.rule.empty() && r.status == S_OK) r.status = S_VIOLATION;
  detail::writeAll(fd, detail::encode(r));
  _exit(0);
}

struct Stats {
  size_t schedules = 0;
  int boundCompleted = -1;
  bool capped = false;
  size_t maxTrace = 0;
  size_t retries = 0;  // schedules re-executed after a replay divergence / wall timeout
  std::set<std::string> outcomes;
};

// Explore all schedules with <= pb preemptions (iteratively 0..pb). onResult is called for every execution.
// Returns false if the schedule cap / deadline stopped the search before bound pb was completed.
inline bool explore(const Body& body, int pb, size_t maxSchedules, double deadlineSec, int parallel, Stats& st,
                    const std::function<void(const Result&, const std::vector<int>& prefix)>& onResult, int maxSteps = 20000,
                    const std::string& sanLogPrefix = "") {
  double tEnd = detail::nowSec() + deadlineSec;
  if (const char* one = getenv("VERIF_ONE_SCHEDULE")) {
    // debugging aid: execute ONE schedule (comma separated choices) VERIF_ONE_REPEAT times and print what each run observed
    std::vector<int> prefix;
    for (const char* p = one; *p;) {
      prefix.push_back(atoi(p));
      while (*p && *p != ',') p++;
      if (*p == ',') p++;
    }
    int rep = getenv("VERIF_ONE_REPEAT") ? atoi(getenv("VERIF_ONE_REPEAT")) : 1;
    for (int k = 0; k < rep; k++) {
      int p[2];
      if (pipe(p) != 0) return false;
      fflush(nullptr);
      pid_t pid = fork();
      if (pid == 0) {
        close(p[0]);
        childMain(body, prefix, p[1], maxSteps, getenv("VERIF_ONE_VERBOSE") != nullptr);
      }
      close(p[1]);
      std::string buf;
      char b[65536];
      ssize_t n;
      while ((n = read(p[0], b, sizeof b)) > 0) buf.append(b, n);
      close(p[0]);
      int status = 0;
      waitpid(pid, &status, 0);
      detail::cleanChildScratch(pid);
      Result r;
      bool ok = detail::decode(buf, r);
      printf("ONE-SCHEDULE run %d: %s status=%s rule=%s points=%zu obs=%s\n", k, ok ? "decoded" : "no-result", statusName(r.status), r.rule.c_str(), r.trace.size(), r.obs.substr(0, 200).c_str());
      if (!r.detail.empty()) printf("  detail: %s\n", r.detail.substr(0, 600).c_str());
    }
    fflush(stdout);
    return true;
  }
  if (const char* cap = getenv("VERIF_PB_CAP")) pb = std::min(pb, atoi(cap));  // quick tier of the atomics pass
  for (int bound = 0; bound <= pb; bound++) {
    std::vector<std::vector<int>> stack;
    stack.push_back({});
    std::vector<Job> running;
    std::map<std::vector<int>, int> retried;
    bool stop = false;
    while ((!stack.empty() || !running.empty())) {
      while (!stop && !stack.empty() && (int)running.size() < parallel) {
        Job j;
        j.prefix = std::move(stack.back());
        stack.pop_back();
        int p[2];
        if (pipe(p) != 0) return false;
        fflush(nullptr);
        pid_t pid = fork();
        if (pid == 0) {
          close(p[0]);
          for (auto& o : running) close(o.fd);
          childMain(body, j.prefix, p[1], maxSteps, false);
        }
        close(p[1]);
        j.pid = pid;
        j.fd = p[0];
        j.t0 = detail::nowSec();
        running.push_back(std::move(j));
      }
      if (running.empty()) break;
      std::vector<struct pollfd> pfs;
      for (auto& j : running) pfs.push_back({j.fd, POLLIN, 0});
      poll(pfs.data(), pfs.size(), 100);
      std::vector<Job> still;
      for (size_t k = 0; k < running.size(); k++) {
        Job& j = running[k];
        bool eof = false, killed = false;
        if (pfs[k].revents & (POLLIN | POLLHUP | POLLERR)) {
          char b[65536];
          ssize_t n = read(j.fd, b, sizeof b);
          if (n > 0)
            j.buf.append(b, n);
          else
            eof = true;
        }
        if (!eof && detail::nowSec() - j.t0 > 30) {
          kill(j.pid, SIGKILL);
          eof = killed = true;
        }
        if (!eof) {
          still.push_back(std::move(j));
          continue;
        }
        close(j.fd);
        int status = 0;
        waitpid(j.pid, &status, 0);
        detail::cleanChildScratch(j.pid);
        Result r;
        if (!detail::decode(j.buf, r)) {
          r.status = killed ? S_TIMEOUT : S_CRASH;
          r.detail = killed ? "schedule did not finish within 30 s of wall time" : "child died (signal " + std::to_string(WIFSIGNALED(status) ? WTERMSIG(status) : 0) + ", exit " + std::to_string(WIFEXITED(status) ? WEXITSTATUS(status) : -1) + ")";
          if (!sanLogPrefix.empty()) {
            std::string path = sanLogPrefix + "." + std::to_string(j.pid);
            FILE* f = fopen(path.c_str(), "r");
            if (f) {
              char b[8192];
              size_t n = fread(b, 1, sizeof b - 1, f);
              b[n] = 0;
              r.detail += "\n" + std::string(b);
              fclose(f);
              unlink(path.c_str());
            }
          }
          // the trace is lost; the prefix identifies the schedule (remaining choices default to 0)
        }
        // A divergence while replaying a prefix, or a wall-clock timeout, can be an artefact of a loaded machine: the schedule is
        // re-executed (up to two more times) before it is believed.  A deterministic defect shows up again every time.
        if ((r.status == S_DIVERGED || r.status == S_TIMEOUT) && retried[j.prefix] < 2) {
          retried[j.prefix]++;
          st.retries++;
          stack.push_back(j.prefix);
          continue;
        }
        // pass `bound` re-executes the schedules of the earlier passes (their traces are needed to branch); only the new ones
        // (exactly `bound` preemptions, or any schedule whose trace was lost) are counted and checked
        bool isNew = r.trace.empty() || r.preemptions() == bound;
        if (isNew) {
          st.schedules++;
          st.maxTrace = std::max(st.maxTrace, r.trace.size());
          st.outcomes.insert(std::string(statusName(r.status)) + ":" + r.obs);
          onResult(r, j.prefix);
        }
        // children: alternatives at points beyond the prefix, within the bound
        size_t plen = j.prefix.size();
        int cost = 0;
        for (size_t i = 0; i < r.trace.size() && i < plen; i++) cost += (r.trace[i].kind == 0 && r.trace[i].chosen != 0);
        // iterative bounding: in pass `bound` only schedules with exactly `bound` preemptions are new
        int c = cost;
        for (size_t i = plen; i < r.trace.size(); i++) {
          auto& tp = r.trace[i];
          int add = tp.kind == 0 ? 1 : 0;
          if (c + add <= bound)
            for (int alt = tp.n - 1; alt >= 1; alt--) {
              std::vector<int> p(plen > i ? i : plen);
              p.clear();
              for (size_t q = 0; q < i; q++) p.push_back(r.trace[q].chosen);
              p.push_back(alt);
              stack.push_back(std::move(p));
            }
          c += (tp.kind == 0 && tp.chosen != 0);  // always 0 beyond the prefix (defaults)
        }
        if (st.schedules >= maxSchedules || detail::nowSec() > tEnd) stop = true;
      }
      running.swap(still);
      if (stop && running.empty()) {
        st.capped = true;
        return false;
      }
    }
    st.boundCompleted = bound;
  }
  return true;
}

// run exactly one schedule (replay) with optional verbose scheduler log
inline Result runOne(const Body& body, const std::vector<int>& prefix, bool verbose, int maxSteps = 20000) {
  int p[2];
  Result r;
  if (pipe(p) != 0) return r;
  fflush(nullptr);
  pid_t pid = fork();
  if (pid == 0) {
    close(p[0]);
    childMain(body, prefix, p[1], maxSteps, verbose);
  }
  close(p[1]);
  std::string buf;
  char b[65536];
  ssize_t n;
  while ((n = read(p[0], b, sizeof b)) > 0) buf.append(b, n);
  close(p[0]);
  int status;
  waitpid(pid, &status, 0);
  if (!detail::decode(buf, r)) {
    r.status = S_CRASH;
    r.detail = "child died";
  }
  return r;
}

}  // namespace vx
