// E2 drivers do not link the E1 boundary; the runner only needs these few helpers from it.
#include "common/boundary.h"

#include <dirent.h>
#include <sys/stat.h>
#include <unistd.h>

namespace vb {
std::string root;
bool rawExists(const std::string& path) {
  struct stat st;
  return lstat(path.c_str(), &st) == 0;
}
void rawRmrf(const std::string& path) {
  struct stat st;
  if (lstat(path.c_str(), &st) != 0) return;
  if (S_ISDIR(st.st_mode)) {
    if (DIR* d = opendir(path.c_str())) {
      while (struct dirent* e = readdir(d)) {
        std::string n = e->d_name;
        if (n != "." && n != "..") rawRmrf(path + "/" + n);
      }
      closedir(d);
    }
    rmdir(path.c_str());
  } else {
    unlink(path.c_str());
  }
}
std::string lastThrowFrames() { return ""; }
}  // namespace vb
