// "Atomics pass" runtime (DESIGN.md 7.6).  liboomd is compiled with -fsanitize=thread, which turns
// every std::atomic / __atomic operation (and every plain memory access) into a call into the
// ThreadSanitizer runtime ABI.  Instead of linking libtsan we link THIS file: plain accesses become
// no-ops and every atomic operation first becomes a scheduling point of the cooperative scheduler
// (harness/sched/sched.cpp) and is then performed sequentially-consistently.  That makes lock-free
// flags, counters and shared_ptr reference counts visible to the schedule explorer without any source
// hook.  Memory orderings weaker than seq_cst are NOT modelled.
#include <cstddef>
#include <cstdint>

extern "C" void verif_atomic_point(const void* addr);

typedef unsigned char a8;
typedef unsigned short a16;
typedef unsigned int a32;
typedef unsigned long long a64;
typedef unsigned __int128 a128;

extern "C" {
void __tsan_init() {}
void __tsan_func_entry(void*) {}
void __tsan_func_exit() {}
void __tsan_vptr_update(void**, void*) {}
void __tsan_vptr_read(void**) {}
void __tsan_read_range(void*, unsigned long) {}
void __tsan_write_range(void*, unsigned long) {}
void __tsan_ignore_thread_begin() {}
void __tsan_ignore_thread_end() {}
#define PLAIN(n)                            \
  void __tsan_read##n(void*) {}             \
  void __tsan_write##n(void*) {}            \
  void __tsan_unaligned_read##n(void*) {}   \
  void __tsan_unaligned_write##n(void*) {}  \
  void __tsan_volatile_read##n(void*) {}    \
  void __tsan_volatile_write##n(void*) {}   \
  void __tsan_read##n##_pc(void*, void*) {} \
  void __tsan_write##n##_pc(void*, void*) {}
PLAIN(1)
PLAIN(2)
PLAIN(4)
PLAIN(8)
PLAIN(16)

#define ATOMICS(T, N)                                                                                             \
  T __tsan_atomic##N##_load(const volatile T* a, int) {                                                           \
    verif_atomic_point((const void*)a);                                                                           \
    return __atomic_load_n(a, __ATOMIC_SEQ_CST);                                                                  \
  }                                                                                                               \
  void __tsan_atomic##N##_store(volatile T* a, T v, int) {                                                        \
    verif_atomic_point((const void*)a);                                                                           \
    __atomic_store_n(a, v, __ATOMIC_SEQ_CST);                                                                     \
  }                                                                                                               \
  T __tsan_atomic##N##_exchange(volatile T* a, T v, int) {                                                        \
    verif_atomic_point((const void*)a);                                                                           \
    return __atomic_exchange_n(a, v, __ATOMIC_SEQ_CST);                                                           \
  }                                                                                                               \
  T __tsan_atomic##N##_fetch_add(volatile T* a, T v, int) {                                                       \
    verif_atomic_point((const void*)a);                                                                           \
    return __atomic_fetch_add(a, v, __ATOMIC_SEQ_CST);                                                            \
  }                                                                                                               \
  T __tsan_atomic##N##_fetch_sub(volatile T* a, T v, int) {                                                       \
    verif_atomic_point((const void*)a);                                                                           \
    return __atomic_fetch_sub(a, v, __ATOMIC_SEQ_CST);                                                            \
  }                                                                                                               \
  T __tsan_atomic##N##_fetch_and(volatile T* a, T v, int) {                                                       \
    verif_atomic_point((const void*)a);                                                                           \
    return __atomic_fetch_and(a, v, __ATOMIC_SEQ_CST);                                                            \
  }                                                                                                               \
  T __tsan_atomic##N##_fetch_or(volatile T* a, T v, int) {                                                        \
    verif_atomic_point((const void*)a);                                                                           \
    return __atomic_fetch_or(a, v, __ATOMIC_SEQ_CST);                                                             \
  }                                                                                                               \
  T __tsan_atomic##N##_fetch_xor(volatile T* a, T v, int) {                                                       \
    verif_atomic_point((const void*)a);                                                                           \
    return __atomic_fetch_xor(a, v, __ATOMIC_SEQ_CST);                                                            \
  }                                                                                                               \
  T __tsan_atomic##N##_fetch_nand(volatile T* a, T v, int) {                                                      \
    verif_atomic_point((const void*)a);                                                                           \
    return __atomic_fetch_nand(a, v, __ATOMIC_SEQ_CST);                                                           \
  }                                                                                                               \
  int __tsan_atomic##N##_compare_exchange_strong(volatile T* a, T* c, T v, int, int) {                            \
    verif_atomic_point((const void*)a);                                                                           \
    return __atomic_compare_exchange_n(a, c, v, false, __ATOMIC_SEQ_CST, __ATOMIC_SEQ_CST);                       \
  }                                                                                                               \
  int __tsan_atomic##N##_compare_exchange_weak(volatile T* a, T* c, T v, int, int) {                              \
    verif_atomic_point((const void*)a);                                                                           \
    return __atomic_compare_exchange_n(a, c, v, false, __ATOMIC_SEQ_CST, __ATOMIC_SEQ_CST);                       \
  }                                                                                                               \
  T __tsan_atomic##N##_compare_exchange_val(volatile T* a, T c, T v, int, int) {                                  \
    verif_atomic_point((const void*)a);                                                                           \
    __atomic_compare_exchange_n(a, &c, v, false, __ATOMIC_SEQ_CST, __ATOMIC_SEQ_CST);                             \
    return c;                                                                                                     \
  }
ATOMICS(a8, 8)
ATOMICS(a16, 16)
ATOMICS(a32, 32)
ATOMICS(a64, 64)

void __tsan_atomic_thread_fence(int) { __atomic_thread_fence(__ATOMIC_SEQ_CST); }
void __tsan_atomic_signal_fence(int) { __atomic_signal_fence(__ATOMIC_SEQ_CST); }
}
