// See sched.h.  This TU defines the pthread / blocking-I/O / clock entry points itself; static
// linking binds liboomd's calls to them and -rdynamic lets libstdc++'s calls (std::thread,
// std::mutex, std::condition_variable, steady_clock) bind to them as well.
#include "sched/sched.h"

#include <dlfcn.h>
#include <errno.h>
#include <fcntl.h>
#include <linux/futex.h>
#include <poll.h>
#include <pthread.h>
#include <stdarg.h>
#include <stdio.h>
#include <stdlib.h>
#include <string.h>
#include <sys/epoll.h>
#include <sys/socket.h>
#include <sys/stat.h>
#include <sys/syscall.h>
#include <sys/time.h>
#include <time.h>
#include <unistd.h>

#include <atomic>

namespace vs {

std::function<void(Verdict, const std::string&)> onStuck;
bool logOps = false;

namespace {

enum Op { OP_NONE, OP_START, OP_STEP, OP_LOCK, OP_CONDWAIT, OP_JOIN, OP_FDREAD, OP_EPOLL, OP_CUSTOM, OP_SLEEP, OP_DONE };
const char* kOpName[] = {"none", "start", "step", "lock", "condwait", "join", "fdread", "epoll", "custom", "sleep", "done"};

constexpr int kMaxThreads = 32;
struct Thread {
  bool used = false, finished = false;
  pthread_t pt{};
  std::atomic<int> wake{0};
  Op op = OP_NONE;
  const char* label = "";
  void* obj = nullptr;          // mutex / cond
  pthread_mutex_t* cmutex = nullptr;
  bool signalled = false;
  int fd = -1;
  int joinTarget = -1;
  bool timed = false, timedOut = false;
  int64_t deadline = 0;
  const std::function<bool()>* pred = nullptr;
  void* (*fn)(void*) = nullptr;
  void* arg = nullptr;
  void* ret = nullptr;
};
Thread g_t[kMaxThreads];
int g_n = 0;
int g_cur = -1;
bool g_active = false;
thread_local int t_self = -1;
std::vector<int> g_prefix;
std::vector<TracePoint> g_trace;
int g_steps = 0, g_maxSteps = 20000;
int64_t g_now = 0;  // virtual ns
const int64_t kBaseSec = 1000000;

struct MutexRec {
  pthread_mutex_t* m;
  int owner;
  int depth;
};
MutexRec g_mx[256];
int g_nmx = 0;
MutexRec& mrec(pthread_mutex_t* m) {
  for (int i = 0; i < g_nmx; i++)
    if (g_mx[i].m == m) return g_mx[i];
  if (g_nmx == 256) {
    // recycle entries of free mutexes
    int k = 0;
    for (int i = 0; i < g_nmx; i++)
      if (g_mx[i].owner >= 0) g_mx[k++] = g_mx[i];
    g_nmx = k;
  }
  g_mx[g_nmx] = {m, -1, 0};
  return g_mx[g_nmx++];
}

struct FdTimeout {
  int fd;
  int64_t rcvNs;
};
FdTimeout g_fdto[64];
int g_nfdto = 0;
int64_t rcvTimeoutOf(int fd) {
  for (int i = 0; i < g_nfdto; i++)
    if (g_fdto[i].fd == fd) return g_fdto[i].rcvNs;
  return 0;
}

template <typename T>
T real(const char* name) {
  void* p = dlsym(RTLD_NEXT, name);
  if (!p) {
    fprintf(stderr, "sched: cannot resolve %s\n", name);
    abort();
  }
  return (T)p;
}
#define REAL(var, type, name) \
  static type var = nullptr;  \
  if (!var) var = real<type>(name)

long futex(std::atomic<int>* addr, int op, int val) { return ::syscall(SYS_futex, (int*)addr, op, val, nullptr, nullptr, 0); }
void sleepSelf(Thread& t) {
  while (t.wake.load(std::memory_order_acquire) == 0) futex(&t.wake, FUTEX_WAIT, 0);
  t.wake.store(0, std::memory_order_release);
}
void wakeThread(Thread& t) {
  t.wake.store(1, std::memory_order_release);
  futex(&t.wake, FUTEX_WAKE, 1);
}

bool fdReady(int fd) {
  struct pollfd p = {fd, POLLIN, 0};
  typedef int (*poll_t)(struct pollfd*, nfds_t, int);
  REAL(rp, poll_t, "poll");
  int r = rp(&p, 1, 0);
  return r > 0 && (p.revents & (POLLIN | POLLHUP | POLLERR | POLLRDHUP));
}
typedef int (*epoll_wait_t)(int, struct epoll_event*, int, int);
bool epollReady(int epfd) {
  REAL(rw, epoll_wait_t, "epoll_wait");
  struct pollfd p = {epfd, POLLIN, 0};
  typedef int (*poll_t)(struct pollfd*, nfds_t, int);
  REAL(rp, poll_t, "poll");
  (void)rw;
  return rp(&p, 1, 0) > 0 && (p.revents & POLLIN);
}

bool enabled(int i) {
  Thread& t = g_t[i];
  if (!t.used || t.finished) return false;
  switch (t.op) {
    case OP_START:
    case OP_STEP: return true;
    case OP_LOCK: {
      MutexRec& r = mrec((pthread_mutex_t*)t.obj);
      return r.owner < 0 || r.owner == i;
    }
    case OP_CONDWAIT: return (t.signalled || t.timedOut) && mrec(t.cmutex).owner < 0;
    case OP_JOIN: return g_t[t.joinTarget].finished;
    case OP_FDREAD: return t.timedOut || fdReady(t.fd);
    case OP_EPOLL: return t.timedOut || epollReady(t.fd);
    case OP_CUSTOM: return (*t.pred)();
    case OP_SLEEP: return t.timedOut;
    default: return false;
  }
}

int nextChoice(int n, uint8_t kind) {
  int c = 0;
  size_t pos = g_trace.size();
  if (pos < g_prefix.size()) c = g_prefix[pos];
  if (c >= n) {
    g_active = false;
    if (onStuck) onStuck(V_DIVERGED, "replay divergence: choice " + std::to_string(c) + " of " + std::to_string(n) + " at point " + std::to_string(pos));
    fprintf(stderr, "sched: replay divergence at point %zu (%d of %d)\n", pos, c, n);
    _exit(100 + V_DIVERGED);
  }
  g_trace.push_back({(uint16_t)n, (uint16_t)c, kind, (uint8_t)(g_cur < 0 ? 0 : g_cur)});
  return c;
}

[[noreturn]] void stuck(Verdict v, const std::string& why) {
  g_active = false;
  std::string d = why + "\n" + describeThreads();
  if (onStuck) onStuck(v, d);
  fprintf(stderr, "sched: %s\n", d.c_str());
  _exit(100 + v);
}

// hand the baton to some enabled thread; returns when the calling thread is scheduled again
void schedule() {
  int me = t_self;
  if (++g_steps > g_maxSteps) stuck(V_LIVELOCK, "step horizon exceeded (livelock or unbounded polling)");
  for (;;) {
    int en[kMaxThreads], ne = 0;
    bool curEnabled = false;
    for (int i = 0; i < g_n; i++)
      if (enabled(i)) {
        if (i == g_cur) curEnabled = true;
        en[ne++] = i;
      }
    if (ne == 0) {
      // quiescent: fire the earliest pending timeout (virtual time jumps to it)
      int best = -1;
      for (int i = 0; i < g_n; i++)
        if (g_t[i].used && !g_t[i].finished && g_t[i].timed && !g_t[i].timedOut && (best < 0 || g_t[i].deadline < g_t[best].deadline)) best = i;
      if (best < 0) {
        bool anyAlive = false;
        for (int i = 0; i < g_n; i++) anyAlive |= g_t[i].used && !g_t[i].finished;
        if (!anyAlive) return;  // everything finished (caller is exiting)
        stuck(V_DEADLOCK, "deadlock: no thread is enabled and no timeout is pending");
      }
      if (g_t[best].deadline > g_now) g_now = g_t[best].deadline;
      g_t[best].timedOut = true;
      continue;
    }
    // canonical order: the running thread first (if still enabled), then ascending ids
    int ord[kMaxThreads], k = 0;
    if (curEnabled) ord[k++] = g_cur;
    for (int j = 0; j < ne; j++)
      if (!(curEnabled && en[j] == g_cur)) ord[k++] = en[j];
    int c = ne == 1 ? 0 : nextChoice(ne, curEnabled ? 0 : 1);
    int next = ord[c];
    if (logOps) fprintf(stderr, "[sched] t=%lldms run T%d (%s %s) of %d enabled\n", (long long)(g_now / 1000000), next, kOpName[g_t[next].op], g_t[next].label, ne);
    if (next == me) {
      g_cur = me;
      return;
    }
    g_cur = next;
    wakeThread(g_t[next]);
    if (me >= 0 && !g_t[me].finished) {
      sleepSelf(g_t[me]);
      return;  // we were chosen by someone else's schedule()
    }
    return;  // finished thread: just leave
  }
}

void point(Op op, const char* label) {
  Thread& t = g_t[t_self];
  t.op = op;
  t.label = label;
  int e = errno;
  schedule();
  t.op = OP_NONE;
  errno = e;
}

void* trampoline(void* p) {
  int id = (int)(intptr_t)p;
  t_self = id;
  Thread& t = g_t[id];
  sleepSelf(t);  // wait for the first time we are scheduled (op = OP_START)
  t.op = OP_NONE;
  void* r = t.fn(t.arg);
  t.ret = r;
  t.finished = true;
  t.op = OP_DONE;
  if (g_active) schedule();
  // from here on this OS thread runs its exit path (TLS destructors ...) outside the scheduler: hooked operations pass through
  t_self = -1;
  return r;
}

}  // namespace

bool active() { return g_active; }
int self() { return g_active ? t_self : -1; }
const std::vector<TracePoint>& trace() { return g_trace; }
int64_t nowNs() { return g_now; }
bool othersBlocked() {
  for (int i = 0; i < g_n; i++)
    if (i != t_self && g_t[i].used && !g_t[i].finished && g_t[i].op != OP_CUSTOM && enabled(i)) return false;
  return true;
}

std::string describeThreads() {
  std::string s;
  for (int i = 0; i < g_n; i++) {
    Thread& t = g_t[i];
    if (!t.used) continue;
    char b[200];
    snprintf(b, sizeof b, "  T%d %s: %s %s%s%s\n", i, t.finished ? "finished" : (i == g_cur ? "running" : "blocked"), kOpName[t.op], t.label, t.timed ? " (timed)" : "", t.signalled ? " (signalled)" : "");
    s += b;
  }
  char b[64];
  snprintf(b, sizeof b, "  virtual time %lld ms, %d steps\n", (long long)(g_now / 1000000), g_steps);
  return s + b;
}

void start(const std::vector<int>& prefix, int maxSteps) {
  g_prefix = prefix;
  g_trace.clear();
  g_trace.reserve(4096);
  g_maxSteps = maxSteps;
  g_steps = 0;
  g_now = 0;
  g_n = 1;
  g_t[0].used = true;
  g_t[0].finished = false;
  g_t[0].pt = pthread_self();
  t_self = 0;
  g_cur = 0;
  g_active = true;
}
void stop() { g_active = false; }

int choose(int n, const char*) {
  if (!g_active || t_self < 0 || n <= 1) return 0;
  return nextChoice(n, 2);
}

int g_eintrBudget = 0;
thread_local bool t_noFaults = false;
void setInterruptBudget(int n) { g_eintrBudget = n; }
void exemptThisThreadFromFaults() { t_noFaults = true; }

void yield(const char* label) {
  if (!g_active || t_self < 0) return;
  point(OP_STEP, label);
}

// ---- atomics pass (sched/tsanstub_nosan.cpp): an atomic operation of the code under test becomes a scheduling point once
// its address has been touched by two different threads in this execution (thread-local use, e.g. a shared_ptr that never
// leaves its thread, adds no points).  Fixed-size open-addressing table, reset with every execution (one process each).
// (Making EVERY atomic operation a point while two threads are alive was tried: 9x the schedules for no additional finding.)
namespace {
struct AtomRec {
  const void* addr;
  int first;
  bool multi;
};
constexpr size_t kAtomSlots = 1 << 14;
AtomRec g_atoms[kAtomSlots];
size_t g_atomPoints = 0;
}  // namespace
size_t atomicPoints() { return g_atomPoints; }
void atomicPoint(const void* addr) {
  if (!g_active || t_self < 0) return;
  size_t h = ((uintptr_t)addr >> 2) * 0x9E3779B97F4A7C15ull >> 50;  // 14 bits
  for (size_t k = 0; k < kAtomSlots; k++) {
    AtomRec& r = g_atoms[(h + k) & (kAtomSlots - 1)];
    if (r.addr == nullptr) {
      r.addr = addr;
      r.first = t_self;
      r.multi = false;
      return;
    }
    if (r.addr != addr) continue;
    if (r.first != t_self) r.multi = true;
    if (r.multi) {
      g_atomPoints++;
      point(OP_STEP, "atomic");
    }
    return;
  }
}
void pointIf(const std::function<bool()>& en, const char* label) {
  if (!g_active || t_self < 0) return;
  Thread& t = g_t[t_self];
  t.pred = &en;
  point(OP_CUSTOM, label);
  t.pred = nullptr;
}

}  // namespace vs

using namespace vs;

// ======================================================================================
extern "C" {

void verif_atomic_point(const void* addr) { vs::atomicPoint(addr); }

typedef int (*mutex_fn)(pthread_mutex_t*);
int pthread_mutex_lock(pthread_mutex_t* m) {
  REAL(f, mutex_fn, "pthread_mutex_lock");
  if (!g_active || t_self < 0) return f(m);
  Thread& t = g_t[t_self];
  t.obj = m;
  point(OP_LOCK, "mutex_lock");
  MutexRec& r = mrec(m);
  if (r.owner == t_self) {
    // relocking a mutex this thread already holds: fine for a recursive one, EDEADLK for an error-checking one, and a
    // self-deadlock for a normal / adaptive one (glibc: kind 0 / 3) - report it instead of hanging for real
    int kind = m->__data.__kind & 127;
    if (kind == PTHREAD_MUTEX_TIMED_NP || kind == PTHREAD_MUTEX_ADAPTIVE_NP)
      stuck(V_DEADLOCK, "deadlock: a thread locks a non-recursive mutex that it already holds");
    r.depth++;
    return f(m);
  }
  r.owner = t_self;
  r.depth = 1;
  return f(m);
}
int pthread_mutex_trylock(pthread_mutex_t* m) {
  REAL(f, mutex_fn, "pthread_mutex_trylock");
  if (!g_active || t_self < 0) return f(m);
  MutexRec& r = mrec(m);
  if (r.owner >= 0 && r.owner != t_self) return EBUSY;
  int rc = f(m);
  if (rc == 0) {
    r.owner = t_self;
    r.depth++;
  }
  return rc;
}
int pthread_mutex_unlock(pthread_mutex_t* m) {
  REAL(f, mutex_fn, "pthread_mutex_unlock");
  if (!g_active || t_self < 0) return f(m);
  MutexRec& r = mrec(m);
  if (r.owner == t_self && --r.depth <= 0) {
    r.owner = -1;
    r.depth = 0;
  }
  return f(m);
}

static int condWaitCommon(pthread_cond_t* c, pthread_mutex_t* m, bool timed, int64_t deadline) {
  REAL(lock, mutex_fn, "pthread_mutex_lock");
  REAL(unlock, mutex_fn, "pthread_mutex_unlock");
  // A thread can be preempted between evaluating its wait predicate and starting to wait (the mutex is still held then):
  // only a notifier that does not take the mutex can slip in, which is exactly the lost-wake-up pattern.
  point(OP_STEP, "cond_wait entry");
  Thread& t = g_t[t_self];
  MutexRec& r = mrec(m);
  r.owner = -1;
  r.depth = 0;
  unlock(m);
  t.obj = c;
  t.cmutex = m;
  t.signalled = false;
  t.timed = timed;
  t.timedOut = false;
  t.deadline = deadline;
  point(OP_CONDWAIT, timed ? "cond_timedwait" : "cond_wait");
  bool to = t.timedOut && !t.signalled;
  t.timed = false;
  t.timedOut = false;
  t.signalled = false;
  t.obj = nullptr;
  MutexRec& r2 = mrec(m);
  r2.owner = t_self;
  r2.depth = 1;
  lock(m);
  return to ? ETIMEDOUT : 0;
}
typedef int (*cond_wait_fn)(pthread_cond_t*, pthread_mutex_t*);
int pthread_cond_wait(pthread_cond_t* c, pthread_mutex_t* m) {
  REAL(f, cond_wait_fn, "pthread_cond_wait");
  if (!g_active || t_self < 0) return f(c, m);
  return condWaitCommon(c, m, false, 0);
}
typedef int (*cond_timedwait_fn)(pthread_cond_t*, pthread_mutex_t*, const struct timespec*);
int pthread_cond_timedwait(pthread_cond_t* c, pthread_mutex_t* m, const struct timespec* abs) {
  REAL(f, cond_timedwait_fn, "pthread_cond_timedwait");
  if (!g_active || t_self < 0) return f(c, m, abs);
  int64_t d = ((int64_t)abs->tv_sec - kBaseSec) * 1000000000LL + abs->tv_nsec;
  return condWaitCommon(c, m, true, d);
}
typedef int (*cond_clockwait_fn)(pthread_cond_t*, pthread_mutex_t*, clockid_t, const struct timespec*);
int pthread_cond_clockwait(pthread_cond_t* c, pthread_mutex_t* m, clockid_t clk, const struct timespec* abs) {
  REAL(f, cond_clockwait_fn, "pthread_cond_clockwait");
  if (!g_active || t_self < 0) return f(c, m, clk, abs);
  int64_t d = ((int64_t)abs->tv_sec - kBaseSec) * 1000000000LL + abs->tv_nsec;
  return condWaitCommon(c, m, true, d);
}
typedef int (*cond_fn)(pthread_cond_t*);
int pthread_cond_signal(pthread_cond_t* c) {
  REAL(f, cond_fn, "pthread_cond_signal");
  if (!g_active || t_self < 0) return f(c);
  int w[kMaxThreads], n = 0;
  for (int i = 0; i < g_n; i++)
    if (g_t[i].used && !g_t[i].finished && g_t[i].op == OP_CONDWAIT && g_t[i].obj == c && !g_t[i].signalled) w[n++] = i;
  if (n == 0) return 0;
  int k = n == 1 ? 0 : nextChoice(n, 2);
  g_t[w[k]].signalled = true;
  return 0;
}
int pthread_cond_broadcast(pthread_cond_t* c) {
  REAL(f, cond_fn, "pthread_cond_broadcast");
  if (!g_active || t_self < 0) return f(c);
  for (int i = 0; i < g_n; i++)
    if (g_t[i].used && !g_t[i].finished && g_t[i].op == OP_CONDWAIT && g_t[i].obj == c) g_t[i].signalled = true;
  return 0;
}

typedef int (*create_fn)(pthread_t*, const pthread_attr_t*, void* (*)(void*), void*);
int pthread_create(pthread_t* th, const pthread_attr_t* attr, void* (*fn)(void*), void* arg) {
  REAL(f, create_fn, "pthread_create");
  if (!g_active || t_self < 0) return f(th, attr, fn, arg);
  if (g_n >= kMaxThreads) {
    fprintf(stderr, "sched: too many threads\n");
    abort();
  }
  int id = g_n++;
  Thread& t = g_t[id];
  t.used = true;
  t.finished = false;
  t.fn = fn;
  t.arg = arg;
  t.op = OP_START;
  t.label = "thread start";
  t.wake.store(0);
  int rc = f(th, attr, trampoline, (void*)(intptr_t)id);
  if (rc != 0) {
    t.used = false;
    g_n--;
    return rc;
  }
  t.pt = *th;
  point(OP_STEP, "after pthread_create");  // the creator may be preempted right after creating the thread
  return 0;
}
typedef int (*join_fn)(pthread_t, void**);
int pthread_join(pthread_t th, void** ret) {
  REAL(f, join_fn, "pthread_join");
  if (!g_active || t_self < 0) return f(th, ret);
  int target = -1;
  for (int i = 0; i < g_n; i++)
    if (g_t[i].used && pthread_equal(g_t[i].pt, th)) target = i;
  if (target < 0) return f(th, ret);
  g_t[t_self].joinTarget = target;
  point(OP_JOIN, "join");
  return f(th, ret);  // the target has run to its end; the real join returns at once
}

// ---- time ------------------------------------------------------------------------------
typedef int (*clock_gettime_fn)(clockid_t, struct timespec*);
int clock_gettime(clockid_t c, struct timespec* ts) {
  if (g_active) {
    int64_t t = kBaseSec * 1000000000LL + g_now;
    ts->tv_sec = t / 1000000000LL;
    ts->tv_nsec = t % 1000000000LL;
    return 0;
  }
  REAL(f, clock_gettime_fn, "clock_gettime");
  return f(c, ts);
}
int gettimeofday(struct timeval* tv, void* tz) {
  (void)tz;
  struct timespec ts;
  clock_gettime(CLOCK_REALTIME, &ts);
  tv->tv_sec = ts.tv_sec;
  tv->tv_usec = ts.tv_nsec / 1000;
  return 0;
}
typedef int (*nanosleep_fn)(const struct timespec*, struct timespec*);
int nanosleep(const struct timespec* req, struct timespec* rem) {
  if (g_active && t_self >= 0) {
    Thread& t = g_t[t_self];
    t.timed = true;
    t.timedOut = false;
    t.deadline = g_now + req->tv_sec * 1000000000LL + req->tv_nsec;
    point(OP_SLEEP, "sleep");
    t.timed = t.timedOut = false;
    if (rem) rem->tv_sec = rem->tv_nsec = 0;
    return 0;
  }
  REAL(f, nanosleep_fn, "nanosleep");
  return f(req, rem);
}
int clock_nanosleep(clockid_t, int flags, const struct timespec* req, struct timespec* rem) {
  if (g_active && t_self >= 0 && !(flags & TIMER_ABSTIME)) return nanosleep(req, rem);
  typedef int (*fn)(clockid_t, int, const struct timespec*, struct timespec*);
  REAL(f, fn, "clock_nanosleep");
  return f(CLOCK_MONOTONIC, flags, req, rem);
}

// ---- blocking I/O ------------------------------------------------------------------------
static bool isBlockingStream(int fd) {
  int fl = fcntl(fd, F_GETFL);
  if (fl < 0 || (fl & O_NONBLOCK)) return false;
  struct stat st;
  if (fstat(fd, &st) != 0) return false;
  return S_ISSOCK(st.st_mode) || S_ISFIFO(st.st_mode);
}
typedef int (*setsockopt_fn)(int, int, int, const void*, socklen_t);
int setsockopt(int fd, int level, int name, const void* val, socklen_t len) {
  REAL(f, setsockopt_fn, "setsockopt");
  if (g_active && level == SOL_SOCKET && name == SO_RCVTIMEO && len >= sizeof(struct timeval)) {
    const struct timeval* tv = (const struct timeval*)val;
    int64_t ns = tv->tv_sec * 1000000000LL + tv->tv_usec * 1000LL;
    bool found = false;
    for (int i = 0; i < g_nfdto; i++)
      if (g_fdto[i].fd == fd) {
        g_fdto[i].rcvNs = ns;
        found = true;
      }
    if (!found && g_nfdto < 64) g_fdto[g_nfdto++] = {fd, ns};
    return 0;  // the real socket stays without a kernel timeout: the scheduler provides it in virtual time
  }
  if (g_active && level == SOL_SOCKET && name == SO_SNDTIMEO) return 0;
  return f(fd, level, name, val, len);
}
static void forgetFd(int fd) {
  for (int i = 0; i < g_nfdto; i++)
    if (g_fdto[i].fd == fd) g_fdto[i] = g_fdto[--g_nfdto];
}

// waits (in scheduler terms) until fd is readable or its receive timeout fired; returns false on timeout
static bool waitReadable(int fd, const char* label) {
  Thread& t = g_t[t_self];
  t.fd = fd;
  int64_t to = rcvTimeoutOf(fd);
  t.timed = to > 0;
  t.timedOut = false;
  t.deadline = g_now + to;
  point(OP_FDREAD, label);
  bool timedOut = t.timedOut && !fdReady(fd);
  t.timed = t.timedOut = false;
  return !timedOut;
}

typedef ssize_t (*read_fn)(int, void*, size_t);
ssize_t read(int fd, void* buf, size_t n) {
  REAL(f, read_fn, "read");
  if (!g_active || t_self < 0 || !isBlockingStream(fd)) return f(fd, buf, n);
  // fault axis (off unless the body asks for it): a blocking read of the code under test is interrupted by a signal before any
  // data arrived - at most `budget` times per execution, at any read
  if (g_eintrBudget > 0 && !t_noFaults && nextChoice(2, 2) == 1) {
    g_eintrBudget--;
    errno = EINTR;
    return -1;
  }
  if (!waitReadable(fd, "read")) {
    errno = EAGAIN;
    return -1;
  }
  return f(fd, buf, n);
}
typedef ssize_t (*recv_fn)(int, void*, size_t, int);
ssize_t recv(int fd, void* buf, size_t n, int flags) {
  REAL(f, recv_fn, "recv");
  if (!g_active || t_self < 0 || !isBlockingStream(fd) || (flags & MSG_DONTWAIT)) return f(fd, buf, n, flags);
  if (!waitReadable(fd, "recv")) {
    errno = EAGAIN;
    return -1;
  }
  return f(fd, buf, n, flags);
}
typedef int (*accept_fn)(int, struct sockaddr*, socklen_t*);
int accept(int fd, struct sockaddr* a, socklen_t* l) {
  REAL(f, accept_fn, "accept");
  if (!g_active || t_self < 0 || !isBlockingStream(fd)) return f(fd, a, l);
  waitReadable(fd, "accept");
  return f(fd, a, l);
}
typedef int (*connect_fn)(int, const struct sockaddr*, socklen_t);
int connect(int fd, const struct sockaddr* a, socklen_t l) {
  REAL(f, connect_fn, "connect");
  if (g_active && t_self >= 0) point(OP_STEP, "connect");
  return f(fd, a, l);
}
typedef ssize_t (*write_fn)(int, const void*, size_t);
ssize_t write(int fd, const void* buf, size_t n) {
  REAL(f, write_fn, "write");
  if (g_active && t_self >= 0 && fd > 2) {
    struct stat st;
    if (fstat(fd, &st) == 0 && (S_ISSOCK(st.st_mode) || S_ISFIFO(st.st_mode) || (!S_ISREG(st.st_mode) && !S_ISCHR(st.st_mode) && !S_ISDIR(st.st_mode)))) point(OP_STEP, "write");
  }
  return f(fd, buf, n);
}
typedef ssize_t (*send_fn)(int, const void*, size_t, int);
ssize_t send(int fd, const void* buf, size_t n, int flags) {
  REAL(f, send_fn, "send");
  if (g_active && t_self >= 0) point(OP_STEP, "send");
  return f(fd, buf, n, flags);
}
// opening a file is a visible step (the drop-in watcher reads files another thread is rewriting)
typedef FILE* (*fopen_fn)(const char*, const char*);
FILE* fopen64(const char* path, const char* mode) {
  REAL(f, fopen_fn, "fopen64");
  if (g_active && t_self >= 0) point(OP_STEP, "fopen");
  return f(path, mode);
}
FILE* fopen(const char* path, const char* mode) {
  REAL(f, fopen_fn, "fopen");
  if (g_active && t_self >= 0) point(OP_STEP, "fopen");
  return f(path, mode);
}
// directory scans and arming an inotify watch are visible steps (ordering of "scan" vs "watch" matters to the drop-in service)
typedef void* (*opendir_fn)(const char*);
void* opendir(const char* path) {
  REAL(f, opendir_fn, "opendir");
  if (g_active && t_self >= 0) point(OP_STEP, "opendir");
  return f(path);
}
typedef int (*inotify_add_watch_fn)(int, const char*, uint32_t);
int inotify_add_watch(int fd, const char* path, uint32_t mask) {
  REAL(f, inotify_add_watch_fn, "inotify_add_watch");
  if (g_active && t_self >= 0) point(OP_STEP, "inotify_add_watch");
  return f(fd, path, mask);
}
typedef int (*close_fn)(int);
int close(int fd) {
  REAL(f, close_fn, "close");
  if (g_active && t_self >= 0 && fd > 2) {
    struct stat st;
    if (fstat(fd, &st) == 0 && S_ISSOCK(st.st_mode)) point(OP_STEP, "close socket");
    forgetFd(fd);
  }
  return f(fd);
}
typedef int (*shutdown_fn)(int, int);
int shutdown(int fd, int how) {
  REAL(f, shutdown_fn, "shutdown");
  if (g_active && t_self >= 0) point(OP_STEP, "shutdown");
  return f(fd, how);
}
int epoll_wait(int epfd, struct epoll_event* ev, int max, int timeout) {
  REAL(f, epoll_wait_t, "epoll_wait");
  if (!g_active || t_self < 0 || timeout == 0) return f(epfd, ev, max, timeout);
  Thread& t = g_t[t_self];
  t.fd = epfd;
  t.timed = timeout > 0;
  t.timedOut = false;
  t.deadline = g_now + (int64_t)timeout * 1000000LL;
  point(OP_EPOLL, "epoll_wait");
  t.timed = t.timedOut = false;
  return f(epfd, ev, max, 0);
}

}  // extern "C"
