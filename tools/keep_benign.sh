#!/bin/bash
# usage: keep_benign.sh <name> "<checks run: result>"  -- stores a behaviour-preserving change used as a false-alarm regression
N=$1; NOTE=$2
mkdir -p /verif/benign/$N
cp /tmp/seed/$N-out/patch.diff /tmp/seed/$N-out/meta.json /verif/benign/$N/
python3 - "$N" "$NOTE" <<'PY'
import json,sys
p='/verif/benign/%s/meta.json'%sys.argv[1]
d=json.load(open(p)); d['tried_by_verifier']=sys.argv[2]; json.dump(d,open(p,'w'),indent=1)
PY
git -C /repo worktree remove --force /tmp/seed/$N 2>/dev/null
echo kept benign/$N
