#!/bin/bash
# usage: try_seed.sh <ID> <patch> [tier]  -- applies the patch to the tree in $OOMD_REPO (default /repo), runs the check, reverts
ID=$1; P=$2; TIER=${3:-quick}
REPO=${OOMD_REPO:-/repo}
cd $REPO && git status --short | grep -q . && { echo "$REPO not clean"; exit 2; }
git apply --3way "$P" 2>/dev/null || git apply "$P" || patch -p1 < "$P" || { echo "patch does not apply"; git checkout HEAD -- .; exit 2; }
git status --short
cd /verif && OOMD_REPO=$REPO ./check $ID --tier $TIER 2>&1 | cut -c1-260 | grep -v "^  |" | tail -15
rc=${PIPESTATUS[0]}
git -C $REPO checkout HEAD -- . ; git -C $REPO status --short
echo "check rc=$rc"
