#!/bin/bash
# usage: try_seed.sh <ID> <patch> [tier]  -- applies the patch to /repo, runs the check, reverts
ID=$1; P=$2; TIER=${3:-quick}
cd /repo && git status --short | grep -q . && { echo "/repo not clean"; exit 2; }
git apply --3way "$P" 2>/dev/null || git apply "$P" || patch -p1 < "$P" || { echo "patch does not apply"; git checkout HEAD -- .; exit 2; }
git status --short
cd /verif && ./check $ID --tier $TIER 2>&1 | cut -c1-260 | grep -v "^  |" | tail -15
rc=${PIPESTATUS[0]}
git -C /repo checkout HEAD -- . ; git -C /repo status --short
echo "check rc=$rc"
