#!/usr/bin/env python3
"""make_benign_prompt.py <ID> <name> -- scratch worktree /tmp/seed/<name> + /tmp/seed/<name>-out/prompt.txt for a behaviour-preserving change"""
import sys, os, json, subprocess
ID, name = sys.argv[1:3]
wt, out = "/tmp/seed/%s" % name, "/tmp/seed/%s-out" % name
os.makedirs(out, exist_ok=True)
if not os.path.exists(wt):
    subprocess.check_call(["git", "-C", "/repo", "worktree", "add", "--detach", wt, "HEAD"], stdout=subprocess.DEVNULL, stderr=subprocess.DEVNULL)
for l in open("/verif/properties.jsonl"):
    d = json.loads(l)
    if d["id"] == ID:
        prop = d
text = "%s: %s\n\n%s\n\nQuantified over: %s\n" % (ID, prop["title"], prop["statement"], prop["quantifier"]["text"])
t = open("/verif/tools/benign_prompt_template.txt").read()
t = t.replace("{WT}", wt).replace("{OUT}", out).replace("{ID}", ID).replace("{PROPERTY}", text)
open(out + "/prompt.txt", "w").write(t)
print(out + "/prompt.txt")
