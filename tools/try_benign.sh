#!/bin/bash
# usage: try_benign.sh <name> [extra check ids...]  -- applies /tmp/seed/<name>-out/patch.diff (a behaviour-preserving change) to /repo,
# runs the quick checks that cover the touched files, reverts.  Any rc != 0 is a FALSE ALARM (or the change is not benign: triage).
N=$1; shift
P=/tmp/seed/$N-out/patch.diff
[ -f "$P" ] || P=/verif/benign/$N/patch.diff
REPO=${OOMD_REPO:-/repo}
cd $REPO && git status --short | grep -q . && { echo "$REPO not clean"; exit 2; }
git apply "$P" || { echo "patch does not apply"; exit 2; }
files=$(git diff --name-only)
ids="$@"
for f in $files; do
  case $f in
    *BaseKillPlugin*) ids="$ids C01 C03 C04 C07 C17 C10";;
    *engine/Ruleset*|*engine/Engine*|*engine/DetectorGroup*|*engine/BasePlugin*) ids="$ids C02 C05 C06 C11 C13";;
    *PrekillHook*) ids="$ids C07 C13";;
    *util/Fs.*|*CgroupContext*|*OomdContext*) ids="$ids C15 C10 C03 C08 C01";;
    *util/Util.*|*PluginArgParser*|*config/*|*Main.cpp) ids="$ids C12 C13";;
    *dropin/*) ids="$ids C14 C13";;
    *Stats*) ids="$ids C19";;
    *Log.*) ids="$ids C20 C17";;
    *CgroupPath*) ids="$ids C16 C07 C11";;
    *Senpai*) ids="$ids C18 C12";;
    *plugins/Kill*) ids="$ids C09 C03 C04 C01";;
    *plugins/*) ids="$ids C08 C12";;
    *Oomd.cpp|*Oomd.h) ids="$ids C02 C15 C10";;
  esac
done
ids=$(echo $ids | tr ' ' '\n' | sort -u | tr '\n' ' ')
echo "files: $files"; echo "checks: $ids"
cd /verif
for id in $ids; do
  out=$(OOMD_REPO=$REPO ./check $id --tier quick 2>&1); rc=$?
  echo "  $id rc=$rc $(echo "$out" | grep -E "^\[$id" | tail -1 | cut -c1-150)"
  [ $rc -ne 0 ] && echo "$out" | grep -E "signature:|HARNESS|error:" | head -6
done
git -C $REPO checkout HEAD -- . ; git -C $REPO status --short
