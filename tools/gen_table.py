#!/usr/bin/env python3
"""Prints the per-property coverage table (markdown) from /verif/evidence/*.json (run after a clean sweep)."""
import json, glob, os
rows = []
for f in sorted(glob.glob("/verif/evidence/C*.json")):
    e = json.load(open(f)); c = e["coverage"]
    extra = ""
    if c.get("atomics_pass"):
        extra = " + atomics pass %s schedules" % c["atomics_pass"].get("evaluations")
    if c.get("tsan_runs") is not None:
        extra += " + %d free-running TSan runs" % c["tsan_runs"]
    rows.append("| %s | %s | %s | %s scenarios / %s evaluations%s | %s | %s | %.0f s |" % (
        e["property_id"], e["level"], e["tier"], c.get("scenarios"), c.get("evaluations"), extra,
        c.get("states") if c.get("states") is not None else "-", "yes" if c.get("exhaustive") else "NO", e.get("wall_s", 0)))
print("| id | level | tier | explored | states | bound completed | wall |")
print("|---|---|---|---|---|---|---|")
print("\n".join(rows))
