#!/bin/bash
# usage: verify_seed.sh <NAME> <worktree> <outdir>
# Confirms in the scratch worktree: (1) existing tests pass with the change, (2) demo fails with it,
# (3) demo passes without it. Leaves the worktree with the change applied.
# NOTE: never use `git stash` here - the stash is shared by all worktrees of a repository.
ID=$1; WT=$2; OUT=$3
set -u
cd "$WT" || exit 2
git diff -- src > /tmp/seed/$ID.patch.check
if ! diff -q /tmp/seed/$ID.patch.check "$OUT/patch.diff" >/dev/null; then echo "NOTE: patch.diff differs from worktree diff (using worktree diff)"; fi
if [ ! -s /tmp/seed/$ID.patch.check ]; then echo "worktree has no change; applying patch.diff"; git apply "$OUT/patch.diff" || exit 2; git diff -- src > /tmp/seed/$ID.patch.check; fi
echo "== tests with change"; (meson test -C _build 2>&1 | grep -E "^Ok:|^Fail:|^Timeout:")
echo "== demo with change"; (bash "$OUT/demo/run.sh" "$WT" >/tmp/seed/$ID.demo_with.log 2>&1; echo "exit=$?")
git checkout -q -- src
echo "== demo without change"; (bash "$OUT/demo/run.sh" "$WT" >/tmp/seed/$ID.demo_without.log 2>&1; echo "exit=$?")
git apply /tmp/seed/$ID.patch.check
git status --short | head -5
