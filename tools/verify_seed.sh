#!/bin/bash
# usage: verify_seed.sh <ID> <worktree> <outdir>
# Confirms in the scratch worktree: (1) existing tests pass with the change, (2) demo fails with it,
# (3) demo passes without it. Leaves the worktree with the change applied.
ID=$1; WT=$2; OUT=$3
set -u
cd "$WT" || exit 2
git diff -- src > /tmp/seed/$ID.patch.check
if ! diff -q /tmp/seed/$ID.patch.check "$OUT/patch.diff" >/dev/null; then echo "NOTE: patch.diff differs from worktree diff (using worktree diff)"; fi
echo "== tests with change"; (meson test -C _build 2>&1 | grep -E "^Ok:|^Fail:|^Timeout:") 
echo "== demo with change"; (bash "$OUT/demo/run.sh" "$WT" >/tmp/seed/$ID.demo_with.log 2>&1; echo "exit=$?")
git stash -q
echo "== demo without change"; (bash "$OUT/demo/run.sh" "$WT" >/tmp/seed/$ID.demo_without.log 2>&1; echo "exit=$?")
git stash pop -q
git status --short | head -5
