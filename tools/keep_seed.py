#!/usr/bin/env python3
"""keep_seed.py <ID> <name> <detected: yes|no> <detecting signature(s)> [note]
Copies a sub-agent's confirmed breaking change from /tmp/seed/<ID>-out into /verif/seeded/<name>/."""
import sys, os, json, shutil
ID, name, det, sig = sys.argv[1:5]
note = sys.argv[5] if len(sys.argv) > 5 else ""
src = "/tmp/seed/%s-out" % (name if os.path.exists("/tmp/seed/%s-out" % name) else ID)
dst = "/verif/seeded/%s" % name
shutil.rmtree(dst, ignore_errors=True)
os.makedirs(dst)
shutil.copy(src + "/patch.diff", dst + "/patch.diff")
if os.path.isdir(src + "/demo"):
    shutil.copytree(src + "/demo", dst + "/demo")
meta = json.load(open(src + "/meta.json"))
meta["property"] = ID
meta["confirmed_by_verifier"] = {
    "what_was_run": "tools/verify_seed.sh in the agent's scratch worktree (meson test: 12/12 OK with the change; demo run.sh exit 1 with the change, exit 0 without it), then tools/try_seed.sh (git apply to /repo, ./check %s --tier quick, git checkout)" % ID,
    "detected_by_check": det == "yes",
    "detecting_signatures": sig,
    "note": note,
}
json.dump(meta, open(dst + "/meta.json", "w"), indent=1)
print("kept", dst)
