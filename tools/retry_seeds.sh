#!/bin/bash
# usage: retry_seeds.sh [seed names...]   (default: all of /verif/seeded/*)
# Applies each kept seeded change to the tree in $OOMD_REPO (default /repo), runs the quick check of its property (or of the
# property named in meta.json's detecting signature), reverts, and prints one line per seed: CAUGHT / MISSED / ERROR.
REPO=${OOMD_REPO:-/repo}
cd "$(dirname "$0")/.."
NAMES=${@:-$(ls seeded)}
for n in $NAMES; do
  d=seeded/$n
  [ -f $d/patch.diff ] || continue
  ids=$(python3 - "$d/meta.json" <<'PY'
import json,sys,re
m=json.load(open(sys.argv[1]))
sig=m.get("confirmed_by_verifier",{}).get("detecting_signatures","")
ids=sorted(set(re.findall(r"\bC\d\d\b", sig))) or [m["property"]]
print(" ".join(ids))
PY
)
  if ! git -C $REPO apply --check $PWD/$d/patch.diff 2>/dev/null; then echo "$n: ERROR patch does not apply"; continue; fi
  git -C $REPO apply $PWD/$d/patch.diff
  res=""
  for id in $ids; do
    out=$(OOMD_REPO=$REPO ./check $id --tier quick 2>&1); rc=$?
    sigs=$(echo "$out" | grep "signature:" | sed 's/ *signature: //' | cut -c1-90 | paste -sd';')
    res="$res $id:rc=$rc[$sigs]"
  done
  git -C $REPO checkout HEAD -- . 2>/dev/null
  case "$res" in *rc=1*) echo "$n: CAUGHT$res";; *rc=2*) echo "$n: ERROR$res";; *) echo "$n: MISSED$res";; esac
done
