#!/bin/bash
# usage: run_all.sh <tier> [ids...]   -- runs the checks one after another and prints one summary line each
TIER=${1:-quick}; shift
IDS=${@:-C01 C02 C03 C04 C05 C06 C07 C08 C09 C10 C11 C12 C13 C14 C15 C16 C17 C18 C19 C20}
for id in $IDS; do
  s=$(date +%s)
  out=$(./check $id --tier $TIER 2>&1); rc=$?
  echo "== $id rc=$rc $(( $(date +%s) - s ))s :: $(echo "$out" | grep -E "^\[$id" | tail -1)"
  echo "$out" | grep -E "^VIOLATION|signature:|KNOWN-FINDING|HARNESS" | head -20
done
