#!/usr/bin/env python3
"""make_seed_prompt.py <ID> <name>  -- creates a scratch worktree /tmp/seed/<name> of /repo's HEAD and /tmp/seed/<name>-out/prompt.txt
for a sub-agent; earlier kept seeds of the same property are listed as ideas to avoid (only their one-paragraph summary)."""
import sys, os, json, subprocess, glob
ID, name = sys.argv[1:3]
wt, out = "/tmp/seed/%s" % name, "/tmp/seed/%s-out" % name
os.makedirs(out, exist_ok=True)
if not os.path.exists(wt):
    subprocess.check_call(["git", "-C", "/repo", "worktree", "add", "--detach", wt, "HEAD"], stdout=subprocess.DEVNULL, stderr=subprocess.DEVNULL)
prop = None
for l in open("/verif/properties.jsonl"):
    d = json.loads(l)
    if d["id"] == ID:
        prop = d
text = "%s: %s\n\n%s\n\nQuantified over: %s\n" % (ID, prop["title"], prop["statement"], prop["quantifier"]["text"])
t = open("/verif/tools/seed_prompt_template.txt").read()
t = t.replace("{WT}", wt).replace("{OUT}", out).replace("{ID}", ID).replace("{PROPERTY}", text)
t = t.replace("/tmp/mypatch.diff", "/tmp/mypatch-%s.diff" % name)
prev = []
for m in sorted(glob.glob("/verif/seeded/%s*/meta.json" % ID)):
    try:
        prev.append(json.load(open(m)).get("summary", "")[:600])
    except Exception:
        pass
if prev:
    t += "\n\nIMPORTANT: earlier attempts already used the following ideas, so pick something DIFFERENT (a different function, a different clause of the property, or a different kind of trigger):\n"
    for p in prev:
        t += " - " + p + "\n"
open(out + "/prompt.txt", "w").write(t)
print(out + "/prompt.txt")
