#!/usr/bin/env python3
"""Regenerates MANIFEST.json from harness/drivers.py (single source of truth)."""
import json, os, sys
V = os.path.dirname(os.path.dirname(os.path.abspath(__file__)))
sys.path.insert(0, os.path.join(V, "harness"))
from drivers import DRIVERS, NOT_APPLICABLE
ids = [json.loads(l)["id"] for l in open(os.path.join(V, "properties.jsonl"))]
checks, na = [], []
for i in ids:
    d = DRIVERS.get(i)
    if d and not d.get("hidden") and d.get("claimed", True):
        checks.append({
            "property_id": i,
            "quick_cmd": "./check %s --tier quick" % i,
            "thorough_cmd": "./check %s --tier thorough" % i,
            "evidence_file": "evidence/%s.json" % i,
            "replay_cmd_template": "./check %s --replay {path}" % i,
            "engine": d.get("engine", "E1"),
            "level_claimed": {"category": d["level"], "text": d["level_text"], "design_ref": d.get("design_ref", "DESIGN.md section 3, " + i)},
            "level_note": d["level_note"],
            "technique": d["technique"],
        })
    else:
        na.append({"property_id": i, "reason": NOT_APPLICABLE.get(i, "check not built yet (in progress); nothing is claimed for this property")})
m = {
    "version": 1,
    "setup_cmd": "./check --setup",
    "hooks": {"guard": "OOMD_VERIF",
              "enable": "no source hooks: checks compile /repo's unmodified sources (meson's own defines plus sanitizer flags) and interpose libc/pthread symbols at link time",
              "baseline_off_cmd": "meson test -C /repo/_build",
              "source_commits": [], "add_only": True},
    "engines": [
        {"name": "E1", "path": "harness/common", "kind_free_text": "bounded-exhaustive / explicit-state exploration of the real linked oomd code over an interposed libc boundary (simulated cgroupfs, virtual clock, scripted plugins); forked workers, crash attribution, replay-twice determinism gate",
         "serves_properties": [c["property_id"] for c in checks if c["engine"] == "E1"]},
        {"name": "E2", "path": "harness/sched", "kind_free_text": "cooperative scheduler at the pthread/blocking-I/O boundary with preemption-bounded stateless schedule enumeration of the real threads, plus a free-running ThreadSanitizer pass",
         "serves_properties": [c["property_id"] for c in checks if c["engine"] == "E2"]},
    ],
    "checks": checks,
    "notes": "All verdicts come from exhaustive enumeration of a bounded space of executions of the real oomd code (model checking family). See DESIGN.md; known defects are in known_findings.json.",
    "not_applicable": na,
}
json.dump(m, open(os.path.join(V, "MANIFEST.json"), "w"), indent=1)
print("claimed:", [c["property_id"] for c in checks])
